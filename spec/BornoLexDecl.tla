---------------------------- MODULE BornoLexDecl ----------------------------
(***************************************************************************)
(* The lexical level of Borno (properties C09, C10; used by C08, C18).     *)
(*                                                                         *)
(* Two independent formulations that TLC checks against each other:        *)
(*  - a DECLARATIVE one: Tokens(text) by maximal munch over the lexeme     *)
(*    predicates (what README / C09 say), and                              *)
(*  - an OPERATIONAL one: the scanner machine (variables pos, line, toks,  *)
(*    diags; one action per lexeme class, character-at-a-time loops),      *)
(*    shaped like a hand-written scanner.                                  *)
(* Texts are sequences of Unicode code points (TLC integers).              *)
(***************************************************************************)
EXTENDS Integers, Sequences, FiniteSets, Host, BornoTokens

NL == 10   TAB == 9   CR == 13   SP == 32   QUOTE == 34
SLASH == 47   STAR == 42   DOT == 46   UNDER == 95

(* Character classes.  "Letter" and "combining mark" are Unicode general categories; the specification
   knows them for the finite alphabet it mentions (the harness checks every single code point against
   the Unicode tables separately).  *)
LetterCps == (65..90) \cup (97..122) \cup {2453, 2476, 2527, 2544} \cup SpellingLetters
MarkCps   == {2494, 2492} \cup SpellingMarks
AsciiDigit(c)  == c \in 48..57
BanglaDigit(c) == c \in 2534..2543
IsDigit(c)     == AsciiDigit(c) \/ BanglaDigit(c)
IsAlpha(c)     == c \in LetterCps \/ c \in MarkCps \/ c = UNDER
IsAlnum(c)     == IsAlpha(c) \/ IsDigit(c)
IsBlank(c)     == c \in {SP, TAB, CR, NL}

(* one- and two-character operators: lexeme |-> token type *)
Op1 == [ x \in {40,41,123,125,91,93,44,46,45,43,59,58,124,38,94,126,42,33,61,60,62,37,47} |->
         CASE x = 40 -> "LEFT_PAREN" [] x = 41 -> "RIGHT_PAREN" [] x = 123 -> "LEFT_BRACE" [] x = 125 -> "RIGHT_BRACE"
           [] x = 91 -> "LEFT_BRACKET" [] x = 93 -> "RIGHT_BRACKET" [] x = 44 -> "COMMA" [] x = 46 -> "DOT"
           [] x = 45 -> "MINUS" [] x = 43 -> "PLUS" [] x = 59 -> "SEMICOLON" [] x = 58 -> "COLON"
           [] x = 124 -> "OR" [] x = 38 -> "AND" [] x = 94 -> "XOR" [] x = 126 -> "NOT" [] x = 42 -> "STAR"
           [] x = 33 -> "BANG" [] x = 61 -> "EQUAL" [] x = 60 -> "LESS" [] x = 62 -> "GREATER" [] x = 37 -> "MODULO"
           [] x = 47 -> "SLASH" ]
Op2Set == { <<42,42>>, <<60,61>>, <<60,60>>, <<62,61>>, <<62,62>>, <<38,38>>, <<124,124>>, <<61,61>>, <<33,61>> }
Op2Type(s) == CASE s = <<42,42>> -> "POWER" [] s = <<60,61>> -> "LESS_EQUAL" [] s = <<60,60>> -> "LEFT_SHIFT"
                [] s = <<62,61>> -> "GREATER_EQUAL" [] s = <<62,62>> -> "RIGHT_SHIFT" [] s = <<38,38>> -> "LOGICAL_AND"
                [] s = <<124,124>> -> "LOGICAL_OR" [] s = <<61,61>> -> "EQUAL_EQUAL" [] s = <<33,61>> -> "BANG_EQUAL"

Sub(t, a, b) == SubSeq(t, a, b)
CountNL(t, a, b) == Cardinality({i \in a..b : t[i] = NL})

---------------------------------------------------------------------------
(* DECLARATIVE LAYER *)

IsOpLexeme(s)  == (Len(s) = 1 /\ s[1] \in DOMAIN Op1) \/ (Len(s) = 2 /\ s \in Op2Set)
IsIdentLexeme(s) == Len(s) >= 1 /\ IsAlpha(s[1]) /\ \A i \in 1..Len(s) : IsAlnum(s[i])
IsNumberLexeme(s) ==
    /\ Len(s) >= 1
    /\ \E k \in 1..Len(s) :          \* k = number of integer digits
         /\ \A i \in 1..k : IsDigit(s[i])
         /\ \/ k = Len(s)
            \/ /\ k + 2 <= Len(s) /\ s[k+1] = DOT
               /\ \A i \in (k+2)..Len(s) : IsDigit(s[i])
IsStringLexeme(s) == Len(s) >= 2 /\ s[1] = QUOTE /\ s[Len(s)] = QUOTE /\ \A i \in 2..(Len(s)-1) : s[i] # QUOTE
IsLexeme(s) == IsOpLexeme(s) \/ IsIdentLexeme(s) \/ IsNumberLexeme(s) \/ IsStringLexeme(s)

IsBlankPiece(s)   == Len(s) = 1 /\ IsBlank(s[1])
IsLineComment(s)  == Len(s) >= 2 /\ s[1] = SLASH /\ s[2] = SLASH /\ \A i \in 1..Len(s) : s[i] # NL
ClosesAt(s, i)    == i >= 3 /\ i + 1 <= Len(s) /\ s[i] = STAR /\ s[i+1] = SLASH   \* the opener's star is not reused
IsBlockComment(s) == /\ Len(s) >= 4 /\ s[1] = SLASH /\ s[2] = STAR
                     /\ ClosesAt(s, Len(s) - 1)
                     /\ \A i \in 3..(Len(s)-2) : ~ClosesAt(s, i)
IsSkip(s) == IsBlankPiece(s) \/ IsLineComment(s) \/ IsBlockComment(s)

MaxOf(S) == CHOOSE m \in S : \A x \in S : x <= m

(* the longest piece starting at p that is a lexeme or a skip; 0 if none *)
Munch(t, p) == LET ks == {k \in 1..(Len(t) - p + 1) : IsLexeme(Sub(t, p, p+k-1)) \/ IsSkip(Sub(t, p, p+k-1))}
               IN IF ks = {} THEN 0 ELSE MaxOf(ks)

StartsBlock(t, p) == p + 1 <= Len(t) /\ t[p] = SLASH /\ t[p+1] = STAR
StartsLine(t, p)  == p + 1 <= Len(t) /\ t[p] = SLASH /\ t[p+1] = SLASH

Translit(s) == [i \in 1..Len(s) |-> IF BanglaDigit(s[i]) THEN s[i] - 2534 + 48 ELSE s[i]]

KeywordTypeOf(s) == IF \E k \in KeywordTypes : Keyword[k] = s
                    THEN CHOOSE k \in KeywordTypes : Keyword[k] = s ELSE "IDENTIFIER"

NoLit == [k |-> "none"]
Tok(ty, t, a, b, ln, lit) == [ty |-> ty, a |-> a, b |-> b, lex |-> Sub(t, a, b), ln |-> ln, lit |-> lit]

(* The piece of text at position p when the line counter stands at `line`:
   its length, the tokens and diagnostic lines it contributes, and the line afterwards. *)
Piece(t, p, line) ==
  LET rest == Len(t) - p + 1 IN
  IF StartsBlock(t, p) THEN
     \* a comment opener never degrades into a SLASH token
     LET ks == {k \in 4..rest : IsBlockComment(Sub(t, p, p+k-1))} IN
     IF ks = {} THEN [len |-> rest, toks |-> <<>>, diags |-> <<line + CountNL(t, p, Len(t))>>, line |-> line + CountNL(t, p, Len(t))]
     ELSE LET k == MaxOf(ks) IN [len |-> k, toks |-> <<>>, diags |-> <<>>, line |-> line + CountNL(t, p, p+k-1)]
  ELSE
  LET k == Munch(t, p) IN
  IF k = 0 THEN
     IF t[p] = QUOTE
     THEN [len |-> rest, toks |-> <<>>, diags |-> <<line + CountNL(t, p, Len(t))>>, line |-> line + CountNL(t, p, Len(t))]
     ELSE [len |-> 1, toks |-> <<>>, diags |-> <<line>>, line |-> line]        \* a character that starts no token
  ELSE
  LET s == Sub(t, p, p+k-1)   e == p + k - 1 IN
  IF IsSkip(s) THEN [len |-> k, toks |-> <<>>, diags |-> <<>>, line |-> line + CountNL(t, p, e)]
  ELSE IF IsStringLexeme(s) THEN
     LET ln == line + CountNL(t, p, e) IN
     [len |-> k, toks |-> <<Tok("STRING", t, p, e, ln, [k |-> "str", s |-> Sub(t, p+1, e-1)])>>, diags |-> <<>>, line |-> ln]
  ELSE IF IsNumberLexeme(s) THEN
     LET v == ParseLit(Translit(s)) IN
     IF v = "OVERFLOW" THEN [len |-> k, toks |-> <<>>, diags |-> <<line>>, line |-> line]
     ELSE [len |-> k, toks |-> <<Tok("NUMBER", t, p, e, line, [k |-> "num", n |-> v, bits |-> Bits(v)])>>, diags |-> <<>>, line |-> line]
  ELSE IF IsIdentLexeme(s) THEN
     [len |-> k, toks |-> <<Tok(KeywordTypeOf(s), t, p, e, line, NoLit)>>, diags |-> <<>>, line |-> line]
  ELSE [len |-> k, toks |-> <<Tok(IF k = 2 THEN Op2Type(s) ELSE Op1[s[1]], t, p, e, line, NoLit)>>, diags |-> <<>>, line |-> line]

RECURSIVE ScanFrom(_, _, _, _, _)
ScanFrom(t, p, line, toks, diags) ==
  IF p > Len(t) THEN [toks |-> Append(toks, [ty |-> "EOF", a |-> Len(t)+1, b |-> Len(t), lex |-> <<>>, ln |-> line, lit |-> NoLit]),
                      diags |-> diags]
  ELSE LET r == Piece(t, p, line) IN ScanFrom(t, p + r.len, r.line, toks \o r.toks, diags \o r.diags)

Tokens(t) == ScanFrom(t, 1, 1, <<>>, <<>>)
=============================================================================
