CONSTANTS
  ProgOf <- FamProgOf
  MaxSteps = 6000
  Depth = 3
  EmitOn = TRUE
INIT Init
NEXT Next
INVARIANTS TerminalIsClassified ErrorHasCause DoneIsClean ScopesWellFormed HeapWellFormed LoopsTerminate OnlyStrayFails EmitInv
PROPERTIES NoEffectAfterError Monotone StoreLocal OutputAppendOnly ReturnUnwindsToCall
