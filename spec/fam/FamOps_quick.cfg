CONSTANTS
  ProgOf <- FamProgOf
  MaxSteps = 400
  Full = FALSE
  NRandom = 600
  EmitOn = TRUE
INIT Init
NEXT Next
INVARIANTS TerminalIsClassified ErrorHasCause DoneIsClean ScopesWellFormed HeapWellFormed EmitInv
PROPERTIES NoEffectAfterError Monotone StoreLocal OutputAppendOnly
