CONSTANTS
  MaxLen = 3
  NRandom = 500
  EmitOn = TRUE
INIT Init
NEXT Next
INVARIANTS ScannerRefinesMaximalMunch OneEOF LinesTrue Ordered ScriptInvariant PointNeedsDigit EmitInv
CHECK_DEADLOCK FALSE
