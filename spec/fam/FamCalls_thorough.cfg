CONSTANTS
  ProgOf <- FamProgOf
  MaxSteps = 200000
  CtxDepth = 3
  HistLen = 6
  EmitOn = TRUE
  Stress = TRUE
INIT Init
NEXT Next
INVARIANTS TerminalIsClassified ErrorHasCause DoneIsClean ScopesWellFormed HeapWellFormed CallFramesConsistent LoopsEnd EmitInv
PROPERTIES NoEffectAfterError Monotone StoreLocal OutputAppendOnly ReturnUnwindsToCall
