------------------------------ MODULE FamObjects ------------------------------
(* Program family for C12 (and the listing clauses of C13): histories of object operations on two variables -
   literals with 0..3 keys in several orders, aliasing, property write (new and existing keys), delete (present and
   absent keys), read (present and absent), nesting - every history of <= HistLen operations, each optionally followed
   by one misuse (non-string key, `.` on a non-object, listing a non-object).  After every step both objects are
   printed and the keys and values of each are listed, the keys twice: the listing order is free but must be stable
   and the two listings must agree (the comparator resolves the order from what was observed). *)
EXTENDS BornoSem, SequencesExt
CONSTANTS HistLen, NRandom, RandLen, EmitOn

Num(i) == Lit(N(i))
Str(s) == Lit(S(s))
Vars == {"o", "p"}
Other(v) == IF v = "o" THEN "p" ELSE "o"
Keys3 == {"a", "b", "c"}
St(nm, s) == [nm |-> nm, s |-> s]
Lits == { <<"0", <<>>>>, <<"a", <<"a">>>>, <<"ba", <<"b", "a">>>>, <<"abc", <<"a", "b", "c">>>>, <<"cab", <<"c", "a", "b">>>>,
          \* two canonically equivalent spellings of one letter (U+09DF and U+09AF U+09BC) are two different property names
          <<"nfa", <<CpsStr(<<2527>>), CpsStr(<<2479, 2492>>), "a">>>>, <<"nfb", <<"b", CpsStr(<<2479, 2492>>), CpsStr(<<2527>>)>>>> }
FreshVals(ks) == [i \in 1..Len(ks) |-> Bin("+", Fresh, Num(i))]
Good ==
     { St("lit" \o l[1] \o ":" \o v, SExpr(Asg(v, Obj(l[2], FreshVals(l[2]))))) : v \in Vars, l \in Lits }
  \cup { St("alias:" \o v, SExpr(Asg(v, Id(Other(v))))) : v \in Vars }
  \cup { St("write:" \o v \o "." \o k, SExpr(PAsg(Id(v), k, Fresh))) : v \in Vars, k \in Keys3 }
  \cup { St("litwrap:" \o v, SExpr(Asg(v, Obj(<<"in", "arr">>, <<Id(Other(v)), Arr(<<Id(Other(v))>>)>>)))) : v \in {"o"} }     \* an existing object as a value of a literal: shared, not copied
  \cup { St("delnf:" \o v \o "." \o IntStr(i), SExpr(Call(Id("delkey"), <<Id(v), Lit(VStr(IF i = 1 THEN <<2527>> ELSE <<2479, 2492>>))>>))) : v \in {"o"}, i \in {1, 2} }
  \cup { St("chain:" \o v, SPrint(PAsg(Id(v), "a", PAsg(Id(Other(v)), "b", Fresh)))) : v \in Vars }       \* the value of a property assignment is the assigned value
  \cup { St("mktwins", SBlock(<< SExpr(Asg("o", Call(Id("mkrec"), <<>>))), SExpr(Asg("p", Call(Id("mkrec"), <<>>))), SExpr(PAsg(Prop(Id("o"), "in"), "z", Fresh)),      \* two objects from one literal site share nothing
                                  SExpr(IAsg(Prop(Id("p"), "arr"), Num(0), Fresh)) >>)) }
  \cup { St("writenil:" \o v \o "." \o k, SExpr(PAsg(Id(v), k, Lit(VNil)))) : v \in Vars, k \in {"a"} }     \* a property holding nil exists
  \cup { St("litnil:" \o v, SExpr(Asg(v, Obj(<<"b", "a">>, <<Lit(VNil), Lit(VNil)>>)))) : v \in {"o"} }
  \cup { St("del:" \o v \o "." \o k, SExpr(Call(Id("delkey"), <<Id(v), Str(k)>>))) : v \in Vars, k \in Keys3 }
  \cup { St("read:" \o v \o "." \o k, SPrint(Prop(Id(v), k))) : v \in Vars, k \in Keys3 }
  \cup { St("nest:" \o v, SExpr(PAsg(Id(v), "a", Id(Other(v))))) : v \in Vars }
  \cup { St("nestarr:" \o v, SExpr(PAsg(Id(v), "b", Arr(<<Id(Other(v)), Fresh>>)))) : v \in Vars }
  \cup { St("pass:" \o v, SExpr(Call(Id("wr"), <<Id(v)>>))) : v \in Vars }
Bad == { St("delkey-nonstring", SExpr(Call(Id("delkey"), <<Id("o"), Num(5)>>))), St("delkey-nil", SExpr(Call(Id("delkey"), <<Id("o"), Lit(VNil)>>))),
         St("dot-on-number", SPrint(Prop(Id("q"), "a"))), St("dot-on-array", SPrint(Prop(Arr(<<Num(1)>>), "a"))), St("dot-on-string", SPrint(Prop(Str("s"), "a"))),
         St("dot-on-nil", SPrint(Prop(Lit(VNil), "a"))), St("store-on-number", SExpr(PAsg(Id("q"), "a", Num(1)))), St("delkey-on-number", SExpr(Call(Id("delkey"), <<Id("q"), Str("a")>>))),
         St("keys-on-number", SPrint(Call(Id("keys"), <<Id("q")>>))), St("values-on-array", SPrint(Call(Id("values"), <<Arr(<<>>)>>))),
         St("keys-arity", SPrint(Call(Id("keys"), <<>>))), St("delkey-arity", SPrint(Call(Id("delkey"), <<Id("o")>>))) }

(* histories as SEQUENCES of sequences: TLC's set union on big sets of big records is quadratic *)
Cross(A, B, F(_, _)) == FlattenSeq([i \in 1..Len(A) |-> [j \in 1..Len(B) |-> F(A[i], B[j])]])
GoodSeq == SetToSeq(Good)
BadSeq == SetToSeq(Bad)
RECURSIVE GoodSeqs(_)
GoodSeqs(n) == IF n = 0 THEN << <<>> >> ELSE LET prev == GoodSeqs(n - 1) IN Cross(prev, GoodSeq, LAMBDA h, g : Append(h, g))
UpTo(n) == FlattenSeq([k \in 1..(n + 1) |-> GoodSeqs(k - 1)])
Hists == UpTo(HistLen) \o Cross(UpTo(HistLen - 1), BadSeq, LAMBDA h, b : Append(h, b))
RECURSIVE RHist(_, _, _)
RHist(s, i, n) == IF n = 0 THEN <<>> ELSE <<GoodSeq[1 + RandInt(s, i, Len(GoodSeq))]>> \o RHist(s, i + 1, n - 1)
Randoms == [k \in 1..NRandom |-> RHist(SeedProp * 4096 + k, 1, RandLen)]

Show == << SPrint(Id("o")), SPrint(Id("p")), SPrint(Call(Id("keys"), <<Id("o")>>)), SPrint(Call(Id("values"), <<Id("o")>>)), SPrint(Call(Id("keys"), <<Id("o")>>)),
           SPrint(Call(Id("values"), <<Id("p")>>)), SPrint(Call(Id("keys"), <<Id("p")>>)) >>
Prelude == << SFun("wr", <<"x">>, <<SExpr(PAsg(Id("x"), "c", Fresh))>>), SVar("q", Num(7)),
              SFun("mkrec", <<>>, <<SReturn(Obj(<<"k", "in", "arr">>, <<Num(1), Obj(<<"z">>, <<Num(0)>>), Arr(<<Num(0)>>)>>))>>),
              SVar("o", Obj(<<"a", "b">>, <<Num(1), Num(2)>>)), SVar("p", Obj(<<"z">>, <<Num(3)>>)) >> \o Show
RECURSIVE Body(_)
Body(h) == IF h = <<>> THEN <<>> ELSE <<h[1].s>> \o Show \o Body(Tail(h))
RECURSIVE BodyQuiet(_)      \* the same history with the objects shown only before the first and after the last operation
BodyQuiet(h) == IF h = <<>> THEN <<>> ELSE <<h[1].s>> \o BodyQuiet(Tail(h))
RECURSIVE HName(_)
HName(h) == IF h = <<>> THEN "" ELSE h[1].nm \o ";" \o HName(Tail(h))
ClassOf(h) == IF h = <<>> THEN "empty" ELSE IF Len(h) > HistLen THEN "random" ELSE h[Len(h)].nm

Cases0 == Hists \o Randoms
NC0 == Len(Cases0)
Cases == Cases0 \o SelectSeq(Cases0, LAMBDA h : Len(h) >= 2)      \* second half: quiet rendering
ShowO == << SPrint(Call(Id("keys"), <<Id("o")>>)), SPrint(Call(Id("values"), <<Id("o")>>)), SPrint(Id("o")) >>      \* one object only, so that nothing else is listed in between
Programs == TLCEval([i \in 1..Len(Cases) |-> FreshProg(Prelude \o (IF i <= NC0 THEN Body(Cases[i]) ELSE ShowO \o BodyQuiet(Cases[i]) \o ShowO \o Show), 1)])
FamProgOf(i) == Programs[i]
Init == \E i \in 1..Len(Programs) : InitSem(i, <<>>, FALSE)
Next == SemNext
EmitInv == (EmitOn /\ Final) =>
   Emit([fam |-> "objects", cls |-> ClassOf(Cases[pid]) \o (IF pid > NC0 THEN "|quiet" ELSE ""), key |-> HName(Cases[pid]) \o (IF pid > NC0 THEN "|quiet" ELSE ""), pid |-> pid,
         toks |-> Compact(Yield(MinParen(P))), tree |-> P, stdin |-> stdin, repl |-> repl,
         status |-> status, why |-> why, out |-> out, diags |-> diags, natlog |-> natlog, steps |-> steps])
(* ListingStable: the listing order of an object changes only when the object is modified (its version grows) *)
VersionGrows == [][\A r \in 1..Len(heap) : heap[r].t = "obj" => (heap'[r].ver >= heap[r].ver /\ (heap'[r].ver = heap[r].ver => heap'[r] = heap[r]))]_semvars
=============================================================================
