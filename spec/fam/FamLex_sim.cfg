CONSTANTS
  MaxFrag = 400
  MaxKwFrag = 400
  EmitOn = TRUE
INIT Init
NEXT Next
INVARIANTS
  ScannerRefinesMaximalMunch OneEOF LinesTrue Ordered KeywordIff StringValueIsInside EmitInv
CHECK_DEADLOCK FALSE
