CONSTANTS
  Broken <- BrokenRemove
  ProgOf <- FamProgOf
  MaxSteps = 6000
  HistLen = 2
  NRandom = 300
  RandLen = 12
  EmitOn = FALSE
INIT Init
NEXT Next
INVARIANTS HeapWellFormed
PROPERTIES NativesArePure
