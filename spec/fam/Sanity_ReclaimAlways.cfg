CONSTANTS
  Broken <- BrokenReclaim
  ProgOf <- FamProgOf
  MaxSteps = 20000
  CtxDepth = 2
  HistLen = 4
  EmitOn = FALSE
  Stress = FALSE
INIT Init
NEXT Next
INVARIANTS ScopesWellFormed
PROPERTIES Monotone
