------------------------------- MODULE FamWild -------------------------------
(* Program family for C07 (and a corpus for C13 / C18): (1) every indexing / property / call / operator / built-in form
   applied to every value kind and boundary magnitude, (2) values nested in themselves handed to every consumer,
   (3) deep but bounded nesting and recursion, (4) seeded grammar-based random programs with bounded loops and
   no unbounded recursion.  The specification executes all of them (some end "unspec": the text of a cyclic value,
   numeric-looking strings used as numbers); the replay requires a normal end or a reported error, never a crash. *)
EXTENDS BornoSem, SequencesExt
CONSTANTS NRandom, RandStmts, EmitOn

Num(i) == Lit(N(i))
Str(s) == Lit(S(s))
NumLit(s) == Lit(D(s))
Neg(e) == Un("-", e)
InfE == Bin("*", Lit(D("1e308")), Num(10))
Cross(A, B(_), F(_, _)) == FlattenSeq([i \in 1..Len(A) |-> LET bs == B(A[i]) IN [j \in 1..Len(bs) |-> F(A[i], bs[j])]])

Vals == << <<"nil", Lit(VNil)>>, <<"true", Lit(VBool(TRUE))>>, <<"zero", Num(0)>>, <<"neg", Neg(Num(3))>>, <<"frac", NumLit("2.5")>>, <<"huge", NumLit("1e308")>>,
           <<"2p63", NumLit("9223372036854775808")>>, <<"inf", InfE>>, <<"nan", Bin("-", InfE, InfE)>>, <<"str", Str("abc")>>, <<"str-taka", Lit(VStr(<<2547, 53>>))>>, <<"str-astral", Lit(VStr(<<128512, 8205, 49>>))>>, <<"numstr", Str("12")>>, <<"empty", Str("")>>,
           <<"arr", Id("A")>>, <<"arr0", Arr(<<>>)>>, <<"obj", Id("O")>>, <<"obj0", Obj(<<>>, <<>>)>>, <<"fn", Id("f")>>, <<"nat", Id("len")>>, <<"cyc-arr", Id("CA")>>, <<"cyc-obj", Id("CO")>> >>
Forms(v, w) == <<
  <<"index", SPrint(Idx(v, w))>>, <<"index-store", SExpr(IAsg(v, w, Num(1)))>>, <<"index0", SPrint(Idx(v, Num(0)))>>, <<"prop", SPrint(Prop(v, "k"))>>, <<"prop-store", SExpr(PAsg(v, "k", w))>>,
  <<"call0", SPrint(Call(Grp(v), <<>>))>>, <<"call1", SPrint(Call(Grp(v), <<w>>))>>, <<"print", SPrint(v)>>, <<"concat-l", SPrint(Bin("+", v, Str("s")))>>, <<"concat-r", SPrint(Bin("+", Str("s"), v))>>,
  <<"eq", SPrint(Bin("==", v, w))>>, <<"neq", SPrint(Bin("!=", v, w))>>, <<"lt", SPrint(Bin("<", v, w))>>, <<"shl", SPrint(Bin("<<", v, w))>>, <<"shr", SPrint(Bin(">>", v, w))>>,
  <<"mod", SPrint(Bin("%", v, w))>>, <<"pow", SPrint(Bin("**", v, w))>>, <<"neg", SPrint(Un("-", v))>>, <<"not", SPrint(Un("~", v))>>, <<"bang", SPrint(Un("!", v))>>,
  <<"if", SIf(v, SPrint(Str("T")), SPrint(Str("F")))>>, <<"or", SPrint(Log("or", v, w))>>,
  <<"len", SPrint(Call(Id("len"), <<v>>))>>, <<"push", SPrint(Call(Id("push"), <<v, w>>))>>, <<"push-into", SPrint(Call(Id("push"), <<Id("A"), v, w>>))>>, <<"remove", SPrint(Call(Id("remove"), <<v, w>>))>>,
  <<"remove-at", SPrint(Call(Id("remove"), <<Id("A"), v>>))>>, <<"delkey", SPrint(Call(Id("delkey"), <<v, w>>))>>, <<"delkey-key", SPrint(Call(Id("delkey"), <<Id("O"), v>>))>>,
  <<"keys", SPrint(Call(Id("keys"), <<v>>))>>, <<"values", SPrint(Call(Id("values"), <<v>>))>>, <<"min", SPrint(Call(Id("min"), <<v, w>>))>>, <<"max1", SPrint(Call(Id("max"), <<v>>))>>,
  <<"abs", SPrint(Call(Id("abs"), <<v>>))>>, <<"sqrt", SPrint(Call(Id("sqrt"), <<v>>))>>, <<"round", SPrint(Call(Id("round"), <<v>>))>>, <<"powf", SPrint(Call(Id("pow"), <<v, w>>))>>,
  <<"sin", SPrint(Call(Id("sin"), <<v>>))>>, <<"input", SPrint(Call(Id("input"), <<v>>))>>, <<"in-array", SPrint(Arr(<<v, w>>))>>, <<"in-object", SPrint(Obj(<<"p", "q">>, <<v, w>>))>>,
  <<"arg", SPrint(Call(Id("f"), <<v>>))>>, <<"var", SVar("nv", v)>>, <<"while", SWhile(v, SBlock(<<SPrint(Str("W")), SBreak>>))>> >>
Prelude == << SVar("A", Arr(<<Num(1), Num(2)>>)), SVar("O", Obj(<<"k">>, <<Num(1)>>)), SFun("f", <<"x">>, <<SReturn(Id("x"))>>),
              SVar("CA", Arr(<<Num(0)>>)), SExpr(IAsg(Id("CA"), Num(0), Id("CA"))), SVar("CO", Obj(<<"k">>, <<Num(0)>>)), SExpr(PAsg(Id("CO"), "k", Id("CO"))) >>
Partners == << 1, 3, 5, 7, 8, 10, 13, 19 >>      \* the second operand ranges over a sub-pool
FormCases == FlattenSeq([vi \in 1..Len(Vals) |-> FlattenSeq([wj \in 1..Len(Partners) |->
                LET v == Vals[vi]  w == Vals[Partners[wj]]  fs == Forms(v[2], w[2]) IN
                [k \in 1..Len(fs) |-> [t |-> Prelude \o <<fs[k][2], SPrint(Str("alive"))>>, c |-> "form:" \o fs[k][1] \o "|" \o v[1], key |-> "form:" \o fs[k][1] \o "(" \o v[1] \o "," \o w[1] \o ")"]]])])

(* bounded depth: nesting of brackets, unary chains, call chains, recursion that ends *)
RECURSIVE NestArr(_)
NestArr(n) == IF n = 0 THEN Num(1) ELSE Arr(<<NestArr(n - 1)>>)
RECURSIVE NestUn(_)
NestUn(n) == IF n = 0 THEN Num(1) ELSE Un(IF n % 2 = 0 THEN "-" ELSE "!", NestUn(n - 1))
RECURSIVE NestGrp(_)
NestGrp(n) == IF n = 0 THEN Num(1) ELSE Grp(Bin("+", NestGrp(n - 1), Num(1)))
DeepCases == << [t |-> <<SPrint(NestArr(40))>>, c |-> "deep:array", key |-> "deep:array40"],
                [t |-> <<SPrint(NestUn(60))>>, c |-> "deep:unary", key |-> "deep:unary60"],
                [t |-> <<SPrint(NestGrp(50))>>, c |-> "deep:group", key |-> "deep:group50"],
                [t |-> <<SFun("d", <<"n">>, <<SIf(Bin("<=", Id("n"), Num(0)), SReturn(Num(0)), None), SReturn(Bin("+", Num(1), Call(Id("d"), <<Bin("-", Id("n"), Num(1))>>)))>>),
                         SPrint(Call(Id("d"), <<Num(200)>>))>>, c |-> "deep:recursion", key |-> "deep:recursion200"],
                [t |-> <<SVar("a", Arr(<<>>)), SFor(SVar("i", Num(0)), Bin("<", Id("i"), Num(50)), Asg("i", Bin("+", Id("i"), Num(1))), SExpr(Asg("a", Arr(<<Id("a")>>)))), SPrint(Call(Id("len"), <<Id("a")>>))>>,
                 c |-> "deep:built-array", key |-> "deep:built-array50"] >>

(* seeded random programs *)
VarNames == <<"v1", "v1", "v3", "v1">>
LeafPool == << Num(0), Num(1), Num(7), NumLit("2.5"), Neg(Num(2)), Str("s"), Str(""), Str("12"), Lit(VNil), Lit(VBool(TRUE)), Lit(VBool(FALSE)), Id("v1"), Id("v2"), Id("v3"), Id("A"), Id("O"), Id("zz"),
              Arr(<<Num(1), Num(2)>>), Obj(<<"k">>, <<Num(1)>>), Id("f"), Id("len"), NumLit("1e308"), InfE >>
NumLeaf == << Num(0), Num(1), Num(2), Num(7), NumLit("2.5"), Neg(Num(2)), Id("v1"), Num(3), Num(10), NumLit("0.5") >>
BinPool == <<"+", "-", "*", "/", "%", "**", "<", "<=", "==", "!=", "&", "|", "^", "<<", ">>">>
NatPool == <<"len", "push", "remove", "keys", "values", "abs", "sqrt", "round", "min", "max", "pow", "delkey", "sin">>
ArithPool == <<"+", "-", "*", "/", "+", "-", "*", "%", "<", "<=", "==", "!=", "**">>
IntLeaf == << Num(0), Num(1), Num(2), Num(7), Num(3), Num(10), Num(63) >>
RECURSIVE RE(_, _, _)
RE(s, i, d) ==      \* mostly well-typed numeric expressions; about one node in ten is arbitrary
  LET r == RandInt(s, i, 20) IN
  IF d = 0 \/ r < 5 THEN (IF RandInt(s, i + 8, 10) = 0 THEN LeafPool[1 + RandInt(s, i + 1, Len(LeafPool))] ELSE NumLeaf[1 + RandInt(s, i + 1, Len(NumLeaf))])
  ELSE IF r < 11 THEN Bin(ArithPool[1 + RandInt(s, i + 2, Len(ArithPool))], RE(s, 2 * i, d - 1), RE(s, 2 * i + 1, d - 1))
  ELSE IF r = 11 THEN Bin(<<"&", "|", "^", "<<", ">>">>[1 + RandInt(s, i + 2, 5)], IntLeaf[1 + RandInt(s, i + 3, Len(IntLeaf))], IntLeaf[1 + RandInt(s, i + 4, Len(IntLeaf))])
  ELSE IF r = 12 THEN Un("-", RE(s, 2 * i, d - 1))
  ELSE IF r = 13 THEN Idx(Id("A"), Bin("%", IntLeaf[1 + RandInt(s, i + 3, Len(IntLeaf))], Num(3)))
  ELSE IF r = 14 THEN Prop(Id("O"), IF RandInt(s, i + 10, 12) = 0 THEN "nope" ELSE "k")
  ELSE IF r = 15 THEN Call(Id(<<"abs", "sqrt", "round", "sin">>[1 + RandInt(s, i + 4, 4)]), <<RE(s, 2 * i, d - 1)>>)
  ELSE IF r = 16 THEN Call(Id(<<"min", "max", "pow">>[1 + RandInt(s, i + 4, 3)]), <<RE(s, 2 * i, d - 1), RE(s, 2 * i + 1, d - 1)>>)
  ELSE IF r = 17 THEN Call(Id("len"), <<IF RandInt(s, i + 5, 8) = 0 THEN Id("O") ELSE Call(Id("push"), <<Id("A"), RE(s, 2 * i, d - 1)>>)>>)
  ELSE IF r = 18 THEN Log(IF RandInt(s, i + 6, 2) = 0 THEN "or" ELSE "and", RE(s, 2 * i, d - 1), RE(s, 2 * i + 1, d - 1))
  ELSE Call(Id("f"), <<RE(s, 2 * i, d - 1)>>)
RECURSIVE RStmts(_, _, _, _)
RStmt(s, i, d) ==
  LET r == RandInt(s, i, 12)  nm == VarNames[1 + RandInt(s, i + 9, Len(VarNames))] IN
  IF r < 4 THEN SPrint(RE(s, i * 3 + 1, 3))
  ELSE IF r = 4 THEN SExpr(Asg(nm, RE(s, i * 3 + 1, 3)))
  ELSE IF r = 5 THEN SExpr(IAsg(Id("A"), Bin("%", RE(s, i * 3 + 1, 1), Num(3)), RE(s, i * 3 + 2, 2)))
  ELSE IF r = 6 THEN SExpr(PAsg(Id("O"), "k", RE(s, i * 3 + 1, 2)))
  ELSE IF r = 7 /\ d > 0 THEN SIf(RE(s, i * 3 + 1, 2), SBlock(RStmts(s, i * 5 + 1, 2, d - 1)), IF RandInt(s, i + 7, 2) = 0 THEN None ELSE SBlock(RStmts(s, i * 5 + 2, 1, d - 1)))
  ELSE IF r = 8 /\ d > 0 THEN SFor(SVar("c", Num(0)), Bin("<", Id("c"), Num(3)), Asg("c", Bin("+", Id("c"), Num(1))), SBlock(RStmts(s, i * 5 + 3, 2, d - 1)))
  ELSE IF r = 9 /\ d > 0 THEN SBlock(<<SVar("w", Num(0)), SWhile(Bin("<", Id("w"), Num(2)), SBlock(<<SExpr(Asg("w", Bin("+", Id("w"), Num(1))))>> \o RStmts(s, i * 5 + 4, 2, d - 1)))>>)
  ELSE IF r = 10 THEN SExpr(Call(Id("g"), <<RE(s, i * 3 + 1, 2)>>))
  ELSE SExpr(RE(s, i * 3 + 1, 3))
RStmts(s, i, n, d) == IF n = 0 THEN <<>> ELSE <<RStmt(s, i, d)>> \o RStmts(s, i + 104729, n - 1, d)
RPrelude == << SVar("v1", Num(5)), SVar("v2", Str("t")), SVar("v3", Lit(VNil)), SVar("A", Arr(<<Num(1), Num(2), Num(3)>>)), SVar("O", Obj(<<"k", "m">>, <<Num(1), Str("x")>>)),
               SFun("f", <<"x">>, <<SReturn(Id("x"))>>), SFun("g", <<"x">>, <<SIf(Id("x"), SReturn(Bin("+", Id("x"), Num(1))), None), SPrint(Str("g")), SReturn(Lit(VNil))>>) >>
RandCases == [k \in 1..NRandom |-> [t |-> RPrelude \o RStmts(SeedProp * 65536 + k, 1, RandStmts, 2) \o <<SPrint(Str("end"))>>, c |-> "random", key |-> "random:" \o IntStr(SeedProp) \o "." \o IntStr(k)]]

Cases == FormCases \o DeepCases \o RandCases
Programs == TLCEval([i \in 1..Len(Cases) |-> LayoutProg(Cases[i].t, 1)])
FamProgOf(i) == Programs[i]
Init == \E i \in 1..Len(Programs) : InitSem(i, <<StrCps("line one"), StrCps("line two")>>, FALSE)
Next == SemNext
EmitInv == (EmitOn /\ Final) =>
   Emit([fam |-> "wild", cls |-> Cases[pid].c, key |-> Cases[pid].key, pid |-> pid,
         toks |-> Compact(Yield(MinParen(P))), tree |-> P, stdin |-> <<StrCps("line one"), StrCps("line two")>>, repl |-> repl,
         status |-> status, why |-> why, out |-> out, diags |-> diags, natlog |-> natlog, steps |-> steps])
=============================================================================
