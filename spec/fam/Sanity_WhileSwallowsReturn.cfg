CONSTANTS
  Broken <- BrokenWhile
  ProgOf <- FamProgOf
  MaxSteps = 20000
  CtxDepth = 2
  HistLen = 4
  EmitOn = FALSE
INIT Init
NEXT Next
INVARIANTS LoopsEnd
PROPERTIES ReturnUnwindsToCall
