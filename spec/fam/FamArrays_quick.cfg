CONSTANTS
  ProgOf <- FamProgOf
  MaxSteps = 6000
  HistLen = 2
  NRandom = 300
  RandLen = 12
  EmitOn = TRUE
INIT Init
NEXT Next
INVARIANTS TerminalIsClassified ErrorHasCause DoneIsClean ScopesWellFormed HeapWellFormed EmitInv
PROPERTIES NoEffectAfterError Monotone StoreLocal OutputAppendOnly NativesArePure IndexingKeepsLength
