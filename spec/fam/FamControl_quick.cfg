CONSTANTS
  ProgOf <- FamProgOf
  MaxSteps = 3000
  Depth = 2
  EmitOn = TRUE
INIT Init
NEXT Next
INVARIANTS TerminalIsClassified ErrorHasCause DoneIsClean ScopesWellFormed HeapWellFormed LoopsTerminate OnlyStrayFails EmitInv
PROPERTIES NoEffectAfterError Monotone StoreLocal OutputAppendOnly ReturnUnwindsToCall
