------------------------------- MODULE FamOps -------------------------------
(* Program family for C02 (and C07, C16-number cells): every unary and binary operator applied to every ordered
   pair of a pool of runtime values covering all kinds and the boundary magnitudes, one cell per program
   (`print L op R;`), plus seeded random nested expressions over the pool.  Every value is produced by a literal
   (or the shortest expression that has no literal: -x, 1e308*10, Inf-Inf). *)
EXTENDS BornoSem, SequencesExt
CONSTANTS Full, NRandom, EmitOn

Pre == << SVar("A", Arr(<<Lit(N(1))>>)), SVar("B", Arr(<<Lit(N(1))>>)),
          SVar("O", Obj(<<"k">>, <<Lit(N(1))>>)), SVar("Q", Obj(<<"k">>, <<Lit(N(1))>>)), SFun("f", <<>>, <<>>) >>
E(nm, cl, e, pre) == [nm |-> nm, cl |-> cl, e |-> e, pre |-> pre]
Neg(e) == Un("-", e)
InfE == Bin("*", Lit(D("1e308")), Lit(N(10)))
PoolCore == {
  E("nil", "nil", Lit(VNil), {}), E("true", "bool", Lit(VBool(TRUE)), {}), E("false", "bool", Lit(VBool(FALSE)), {}),
  E("0", "zero", Lit(N(0)), {}), E("-0", "negzero", Neg(Lit(N(0))), {}), E("1", "posint", Lit(N(1)), {}), E("-1", "negint", Neg(Lit(N(1))), {}),
  E("3", "posint", Lit(N(3)), {}), E("0.5", "frac", Lit(D("0.5")), {}), E("-7", "negint", Neg(Lit(N(7))), {}),
  E("63", "posint", Lit(N(63)), {}), E("64", "posint", Lit(N(64)), {}),
  E("2p53", "big", Lit(D("9007199254740992")), {}), E("2p63", "huge", Lit(D("9223372036854775808")), {}),
  E("1e308", "huge", Lit(D("1e308")), {}), E("inf", "inf", InfE, {}), E("nan", "nan", Bin("-", InfE, InfE), {}),
  E("s_empty", "str-empty", Lit(S("")), {}), E("s_a", "str-alpha", Lit(S("a")), {}), E("s_12", "str-numeric", Lit(S("12")), {}), E("s_0", "str-numeric", Lit(S("0")), {}),
  E("wide", "wide", Bin("|", Bin("<<", Lit(N(1)), Lit(N(53))), Lit(N(1))), {}),   \* an int64 no double holds: 2^53 + 1
  E("arrE", "arr", Arr(<<>>), {}), E("objE", "obj", Obj(<<>>, <<>>), {}),      \* two evaluations give two distinct empty containers
  E("arrA", "arr", Id("A"), {1}), E("arrB", "arr", Id("B"), {2}), E("objO", "obj", Id("O"), {3}),
  E("fn", "fn", Id("f"), {5}), E("nat", "nat", Id("len"), {}) }
PoolMore == {
  E("2", "posint", Lit(N(2)), {}), E("2p31", "big", Lit(D("2147483648")), {}), E("-2p63", "huge", Neg(Lit(D("9223372036854775808"))), {}),
  E("-inf", "inf", Neg(InfE), {}), E("sub", "sub", Lit(D("5e-324")), {}), E("1.5", "frac", Lit(D("1.5")), {}),
  E("s_b12", "str-numeric", Lit(VStr(<<2535, 2536>>)), {}), E("s_1.5", "str-numeric", Lit(S("1.5")), {}), E("s_ab", "str-alpha", Lit(S("a b")), {}),
  E("objQ", "obj", Id("Q"), {4}), E("1e6", "big", Lit(D("1000000")), {}) }
Pool == IF Full THEN PoolCore \cup PoolMore ELSE PoolCore

BinOpsAll == {"+","-","*","/","%","**","<","<=",">",">=","==","!=","&","|","^","<<",">>"}
PreOf(s) == LET ids == SetToSeq(s) IN [i \in 1..Len(ids) |-> Pre[ids[i]]]
SortedPre(s) == [i \in 1..Cardinality(s) |-> Pre[CHOOSE x \in s : Cardinality({y \in s : y < x}) = i - 1]]

BinCases == { [t |-> SortedPre(l.pre \cup r.pre) \o <<SPrint(Bin(op, l.e, r.e))>>,
               c |-> op \o "|" \o l.cl \o "|" \o r.cl, key |-> l.nm \o " " \o op \o " " \o r.nm] : op \in BinOpsAll, l \in Pool, r \in Pool }
UnCases  == { [t |-> SortedPre(x.pre) \o <<SPrint(Un(op, x.e))>>, c |-> "un" \o op \o "|" \o x.cl, key |-> op \o x.nm] : op \in {"-", "~", "!"}, x \in Pool }

(* seeded random nested expressions over the number/string part of the pool *)
Leaf == SetToSeq({x \in Pool : x.pre = {} /\ x.cl # "bool"})   \* booleans stay at depth 1: string + boolean is a known finding
OpSeq == SetToSeq(BinOpsAll)
RECURSIVE RExpr(_, _, _)
RExpr(s, i, d) == IF d = 0 \/ RandInt(s, i, 4) = 0 THEN Leaf[1 + RandInt(s, i + 7919, Len(Leaf))].e
                  ELSE IF RandInt(s, i + 31, 8) = 0 THEN Un(IF RandInt(s, i + 3, 2) = 0 THEN "-" ELSE "~", RExpr(s, 2 * i, d - 1))
                  ELSE Bin(OpSeq[1 + RandInt(s, i + 104729, Len(OpSeq))], RExpr(s, 2 * i, d - 1), RExpr(s, 2 * i + 1, d - 1))
(* string + boolean is the open finding of C02 (known_findings.txt): random expressions in which a `+` has an operand that
   yields a boolean are left out, so that the finding's pattern stays confined to its own six depth-1 cells *)
MayBeBool(e) == (e.k = "bin" /\ e.op \in {"<", "<=", ">", ">=", "==", "!="}) \/ (e.k = "un" /\ e.op = "!")
RECURSIVE PlusBool(_)
PlusBool(e) == IF e.k \notin {"bin", "un"} THEN FALSE
               ELSE (e.k = "bin" /\ e.op = "+" /\ (MayBeBool(e.c[1]) \/ MayBeBool(e.c[2]))) \/ \E i \in 1..Len(e.c) : PlusBool(e.c[i])
RandCases == { x \in { [t |-> <<SPrint(RExpr(SeedProp * 4096 + k, 1, 3))>>, c |-> "random-nested", key |-> "rand" \o IntStr(SeedProp) \o "." \o IntStr(k)] : k \in 1..NRandom } :
               ~PlusBool(x.t[1].c[1]) }

(* chains: every pair of binary operators in both groupings, and every unary operator around / inside every binary one, on
   operands for which the grouping matters; MinParen writes only the parentheses the grammar needs, FullParen all of them *)
Triples == { <<37, 3, 2>>, <<2, 3, 2>> }
ChainCases ==
  { [t |-> <<SPrint(Bin(o2, Bin(o1, Lit(N(tr[1])), Lit(N(tr[2]))), Lit(N(tr[3]))))>>, c |-> "chain|" \o o1 \o "|" \o o2 \o "|left",
     key |-> "chain (" \o IntStr(tr[1]) \o o1 \o IntStr(tr[2]) \o ")" \o o2 \o IntStr(tr[3])] : o1 \in BinOpsAll, o2 \in BinOpsAll, tr \in Triples }
  \cup { [t |-> <<SPrint(Bin(o1, Lit(N(tr[1])), Bin(o2, Lit(N(tr[2])), Lit(N(tr[3])))))>>, c |-> "chain|" \o o1 \o "|" \o o2 \o "|right",
     key |-> "chain " \o IntStr(tr[1]) \o o1 \o "(" \o IntStr(tr[2]) \o o2 \o IntStr(tr[3]) \o ")"] : o1 \in BinOpsAll, o2 \in BinOpsAll, tr \in Triples }
  \cup { [t |-> <<SPrint(Bin(o2, Bin(o1, Lit(S("k")), Lit(N(1))), Lit(N(2))))>>, c |-> "chain|" \o o1 \o "|" \o o2 \o "|string-left", key |-> "chain (k" \o o1 \o "1)" \o o2 \o "2"] : o1 \in {"+", "-", "*"}, o2 \in {"+", "-", "*"} }
  \cup { [t |-> <<SPrint(Bin(o2, Bin(o1, Lit(N(1)), Lit(N(2))), Lit(S("k"))))>>, c |-> "chain|" \o o1 \o "|" \o o2 \o "|string-right", key |-> "chain (1" \o o1 \o "2)" \o o2 \o "k"] : o1 \in {"+", "-"}, o2 \in {"+"} }
  \cup { [t |-> <<SPrint(Un(u, Bin(o, Lit(N(5)), Lit(N(2)))))>>, c |-> "chain|un" \o u \o "|" \o o \o "|around", key |-> "chain " \o u \o "(5" \o o \o "2)"] : u \in {"-", "~", "!"}, o \in BinOpsAll }
  \cup { [t |-> <<SPrint(Bin(o, Un(u, Lit(N(5))), Lit(N(2))))>>, c |-> "chain|un" \o u \o "|" \o o \o "|left", key |-> "chain (" \o u \o "5)" \o o \o "2"] : u \in {"-", "~", "!"}, o \in BinOpsAll }
  \cup { [t |-> <<SPrint(Bin(o, Lit(N(5)), Un(u, Lit(N(2)))))>>, c |-> "chain|un" \o u \o "|" \o o \o "|right", key |-> "chain 5" \o o \o "(" \o u \o "2)"] : u \in {"-", "~", "!"}, o \in BinOpsAll }
  \cup { [t |-> <<SPrint(Log(l1, Log(l2, Lit(N(0)), Lit(N(1))), Bin("==", Lit(N(2)), Lit(N(2)))))>>, c |-> "chain|" \o l2 \o "|" \o l1 \o "|left", key |-> "chain (0 " \o l2 \o " 1) " \o l1 \o " 2==2"] : l1 \in {"and", "or"}, l2 \in {"and", "or"} }
  \cup { [t |-> <<SPrint(Log(l1, Lit(N(0)), Log(l2, Lit(N(1)), Bin("==", Lit(N(2)), Lit(N(3))))))>>, c |-> "chain|" \o l1 \o "|" \o l2 \o "|right", key |-> "chain 0 " \o l1 \o " (1 " \o l2 \o " 2==3)"] : l1 \in {"and", "or"}, l2 \in {"and", "or"} }

(* round 7: a number spliced behind the EMPTY string is still a string (it concatenates, and equals the same number spliced
   in front of the empty string), and both zeros spliced in one run keep their own text whichever comes first *)
EmptyPre == { <<"5", Lit(N(5))>>, <<"0", Lit(N(0))>>, <<"-0", Neg(Lit(N(0)))>>, <<"1e6", Lit(D("1000000"))>>, <<"0.5", Lit(D("0.5"))>>, <<"-3", Neg(Lit(N(3)))>> }
SpliceCases ==
  { [t |-> <<SPrint(Bin("+", Bin("+", Lit(S("")), n[2]), Lit(N(1))))>>, c |-> "chain|empty-prefix|+", key |-> "chain (''+" \o n[1] \o ")+1"] : n \in EmptyPre }
  \cup { [t |-> <<SPrint(Bin("==", Bin("+", Lit(S("")), n[2]), Bin("+", n[2], Lit(S("")))))>>, c |-> "chain|empty-prefix|==", key |-> "chain (''+" \o n[1] \o ")==(" \o n[1] \o "+'')"] : n \in EmptyPre }
  \cup { [t |-> <<SPrint(Arr(<<Bin("+", Lit(S("")), n[2]), Bin("+", Bin("+", Lit(S("")), n[2]), Lit(S("")))>>))>>, c |-> "chain|empty-prefix|arr", key |-> "chain [''+" \o n[1] \o "]"] : n \in EmptyPre }
  \cup { [t |-> <<SPrint(Bin("+", Lit(S("z")), z[1])), SPrint(Bin("+", Lit(S("z")), z[2])), SPrint(Bin("+", z[1], Lit(S("z")))), SPrint(Arr(<<z[2], z[1]>>)), SPrint(Bin("+", Lit(S("z")), z[1]))>>,
          c |-> "chain|both-zeros", key |-> "chain zeros " \o z[3]] : z \in { <<Lit(N(0)), Neg(Lit(N(0))), "pos-first">>, <<Neg(Lit(N(0))), Lit(N(0)), "neg-first">> } }

Cases == SetToSeq(BinCases \cup UnCases \cup RandCases \cup ChainCases \cup SpliceCases)
Programs == TLCEval([i \in 1..Len(Cases) |-> LayoutProg(Cases[i].t, 1)])
FamProgOf(i) == Programs[i]
Init == \E i \in 1..Len(Programs) : InitSem(i, <<>>, FALSE)
Next == SemNext
EmitInv == (EmitOn /\ Final) =>
   Emit([fam |-> "ops", cls |-> Cases[pid].c, key |-> Cases[pid].key, pid |-> pid,
         toks |-> Compact(Yield(MinParen(P))), full |-> Compact(Yield(FullParen(P))), tree |-> P, stdin |-> stdin, repl |-> repl,
         status |-> status, why |-> why, out |-> out, diags |-> diags, natlog |-> natlog, steps |-> steps])

(* laws of the operator tables, checked over the whole pool by TLC when the model is loaded *)
PoolVals == { VNil, VBool(TRUE), VBool(FALSE), N(0), D("-0"), N(1), N(-1), D("0.5"), VNum("NaN"), VNum("Inf"), S(""), S("a"), S("12"),
              VArr(1), VArr(2), VObj(3), VFn(4), VNat("len") }
ASSUME \A a, b \in PoolVals : Eq(a, b) = Eq(b, a)                                                  \* symmetric
ASSUME \A a \in PoolVals : (a.t = "num" /\ IsNaN(a.n)) \/ Eq(a, a) = Val(VBool(TRUE))              \* reflexive off NaN
ASSUME \A a, b \in PoolVals : a.t # b.t => Eq(a, b) = Val(VBool(FALSE))                            \* different types are unequal
ASSUME \A op \in BinOpsAll, a, b \in PoolVals : BinOp(op, a, b).r \in {"val", "err", "unspec"}     \* total
ASSUME \A a \in PoolVals : BinOp("/", a, N(0)).r # "val" /\ BinOp("%", a, D("-0")).r # "val"       \* a zero divisor never yields a value
ASSUME \A a \in PoolVals : BinOp("<<", a, N(-1)).r # "val"
=============================================================================
