CONSTANTS
  ProgOf <- FamProgOf
  MaxSteps = 20000
  NRandom = 6000
  Slice = 0
  EmitOn = TRUE
INIT Init
NEXT Next
INVARIANTS TerminalIsClassified ErrorHasCause DoneIsClean ScopesWellFormed HeapWellFormed WellBehaved EmitInv
PROPERTIES NoEffectAfterError Monotone StoreLocal OutputAppendOnly
