------------------------------ MODULE FamPrefix ------------------------------
(* Family driver for C08 (token level) and C01(a): TLC explores every VIABLE PREFIX of at most MaxLen tokens over a
   38-token alphabet (one representative of every operator level, literal kind, bracket, separator and keyword, plus
   a reserved name).  For each prefix it emits whether the prefix is itself a complete program (with its tree) and
   which tokens keep it viable; the harness extends every prefix by EVERY token of the alphabet and by end of input,
   so that every accepted program, every minimal invalid extension and every premature end is replayed, with the
   position of the first offending token.  For every accepted sequence TLC checks that the tree built by the
   predictive recogniser satisfies the declarative ladder relation Canon and yields exactly the tokens. *)
EXTENDS BornoGrammar, SequencesExt
CONSTANTS MaxLen, EmitOn

Alpha == << [t |-> "num", x |-> "1e0"], [t |-> "str", x |-> "s"], IdT("a"), Kw("true"), Kw("nil"),
            Op("("), Op(")"), Op("["), Op("]"), Op("{"), Op("}"), Op(","), Op("."), Op(":"), Op(";"), Op("="),
            Kw("or"), Kw("and"), Op("|"), Op("&"), Op("=="), Op("<"), Op("<<"), Op("+"), Op("*"), Op("**"), Op("-"), Op("!"),
            Kw("var"), Kw("if"), Kw("else"), Kw("while"), Kw("for"), Kw("print"), Kw("return"), Kw("break"), Kw("fun"), IdT("len") >>

VARIABLE ts
Init == ts = <<>>
Extend == /\ Len(ts) < MaxLen
          /\ \E k \in 1..Len(Alpha) : Viable(Append(ts, Alpha[k])) /\ ts' = Append(ts, Alpha[k])
Next == Extend

NextSet == { k \in 1..Len(Alpha) : Viable(Append(ts, Alpha[k])) }
AcceptedOK == Accepted(ts) => LET t == Parse(ts).t IN Canon(t) /\ Yield(t) = ts      \* the two formulations agree
PrefixViable == Viable(ts)
EmitInv == EmitOn => Emit([fam |-> "prefix", toks |-> Compact(ts), accept |-> Accepted(ts), next |-> NextSet, alpha |-> IF ts = <<>> THEN Compact(Alpha) ELSE <<>>,
                           tree |-> IF Accepted(ts) THEN Parse(ts).t ELSE None])
=============================================================================
