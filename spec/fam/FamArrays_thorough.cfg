CONSTANTS
  ProgOf <- FamProgOf
  MaxSteps = 20000
  HistLen = 2
  NRandom = 15000
  RandLen = 12
  EmitOn = TRUE
INIT Init
NEXT Next
INVARIANTS TerminalIsClassified ErrorHasCause DoneIsClean ScopesWellFormed HeapWellFormed EmitInv
PROPERTIES NoEffectAfterError Monotone StoreLocal OutputAppendOnly NativesArePure IndexingKeepsLength
