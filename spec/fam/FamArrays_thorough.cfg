CONSTANTS
  ProgOf <- FamProgOf
  MaxSteps = 20000
  HistLen = 3
  NRandom = 5000
  RandLen = 25
  EmitOn = TRUE
INIT Init
NEXT Next
INVARIANTS TerminalIsClassified ErrorHasCause DoneIsClean ScopesWellFormed HeapWellFormed EmitInv
PROPERTIES NoEffectAfterError Monotone StoreLocal OutputAppendOnly NativesArePure IndexingKeepsLength
