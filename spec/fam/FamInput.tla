------------------------------ MODULE FamInput ------------------------------
(* Program family for C19 (streams and input): programs of each outcome class (clean, runtime error at the first /
   a middle / the last line) that print, prompt and read k lines with the input built-in, run on standard inputs of 0..4
   lines with surrounding blanks.  "Each input call consumes exactly the next line and returns it trimmed". *)
EXTENDS BornoSem, SequencesExt
CONSTANTS EmitOn

Num(i) == Lit(N(i))
Str(s) == Lit(S(s))
In0 == Call(Id("input"), <<>>)
InP(p) == Call(Id("input"), <<Str(p)>>)
Show(e) == SPrint(Bin("+", Bin("+", Str("["), e), Str("]")))
Reads(k, prompted) == [i \in 1..k |-> Show(IF prompted /\ i % 2 = 1 THEN InP("p" \o IntStr(i) \o "> ") ELSE In0)]
Fault == SPrint(Bin("/", Num(1), Num(0)))
Bodies(k, prompted) == LET rs == Reads(k, prompted) IN
  { <<"clean", <<SPrint(Str("start"))>> \o rs \o <<SPrint(Str("end"))>>>>,
    <<"rterr-first", <<Fault, SPrint(Str("start"))>> \o rs>>,
    <<"rterr-middle", <<SPrint(Str("start"))>> \o SubSeq(rs, 1, k \div 2) \o <<Fault>> \o SubSeq(rs, k \div 2 + 1, k) \o <<SPrint(Str("end"))>>>>,
    <<"rterr-last", <<SPrint(Str("start"))>> \o rs \o <<SPrint(Str("end")), Fault>>>> }
LinePool == << StrCps("alpha"), StrCps("  beta gamma  "), <<9>> \o StrCps("delta") \o <<9, 32>>, StrCps(""), <<2453, 2494>>, StrCps("12"), <<32, 9, 32>> >>     \* the last: blanks only
Inputs(n) == [i \in 1..n |-> LinePool[1 + ((i * 2 + n) % Len(LinePool))]]
Cross(A, B(_), F(_, _)) == FlattenSeq([i \in 1..Len(A) |-> LET bs == B(A[i]) IN [j \in 1..Len(bs) |-> F(A[i], bs[j])]])
Combos == Cross(<<0, 1, 2, 3, 5>>, LAMBDA k : <<0, 1, 2, 3, 4>>, LAMBDA k, n : <<k, n>>)
Cases == FlattenSeq([ci \in 1..Len(Combos) |-> LET k == Combos[ci][1]  n == Combos[ci][2] IN
           FlattenSeq([pr \in 1..2 |-> LET bs == SetToSeq(Bodies(k, pr = 2)) IN
             [j \in 1..Len(bs) |-> [t |-> bs[j][2], stdin |-> Inputs(n), c |-> bs[j][1] \o "|reads" \o IntStr(k) \o "|lines" \o IntStr(n),
                                    key |-> bs[j][1] \o "|reads" \o IntStr(k) \o (IF pr = 2 THEN "p" ELSE "") \o "|lines" \o IntStr(n)]]])])
Programs == TLCEval([i \in 1..Len(Cases) |-> LayoutProg(Cases[i].t, 1)])
FamProgOf(i) == Programs[i]
Init == \E i \in 1..Len(Programs) : InitSem(i, Cases[i].stdin, FALSE)
Next == SemNext
EmitInv == (EmitOn /\ Final) =>
   Emit([fam |-> "input", cls |-> Cases[pid].c, key |-> Cases[pid].key, pid |-> pid,
         toks |-> Compact(Yield(MinParen(P))), tree |-> P, stdin |-> Cases[pid].stdin, repl |-> repl,
         status |-> status, why |-> why, out |-> out, diags |-> diags, natlog |-> natlog, steps |-> steps])
(* InputConsumesOneLine: lines consumed = input calls made *)
OneLinePerCall == Len(stdin) + Cardinality({i \in 1..Len(natlog) : natlog[i].name = "input"}) >= Len(Cases[pid].stdin)
=============================================================================
