----------------------------- MODULE FamControl -----------------------------
(* Program family for C05 (branches and loops): every control skeleton up to a nesting depth, built from
   trace points, if / if-else with conditions of every truthiness kind, while, the 8 shapes of for,
   two-statement blocks, break and continue; every loop is driven by its own counter and terminates by
   construction.  A trace point prints its own source line, so the printed sequence is the path taken. *)
EXTENDS BornoSem, SequencesExt
CONSTANTS Depth, EmitOn

Tp == SPrint(Lit(N(0)))
Cnt(L) == IF L = 1 THEN "i" ELSE IF L = 2 THEN "j" ELSE IF L = 3 THEN "k" ELSE "m"
CondsOut == { <<"t", Lit(VBool(TRUE))>>, <<"f", Lit(VBool(FALSE))>>, <<"0", Lit(N(0))>>, <<"e", Lit(S(""))>>,
              <<"n", Lit(VNil)>>, <<"s", Lit(S("a"))>>, <<"a", Arr(<<>>)>>, <<"s0", Lit(S("0"))>>, <<"sb0", Lit(VStr(<<2534, 46, 2534>>))>> }     \* "0" and its Bangla spelling are non-empty strings
Conds(L) == IF L = 0 THEN CondsOut
            ELSE { <<"t", Lit(VBool(TRUE))>>, <<"0", Lit(N(0))>>, <<"e", Lit(S(""))>>, <<"a", Arr(<<>>)>>,
                   <<"lt2", Bin("<", Id(Cnt(L)), Lit(N(2)))>>, <<"eq1", Bin("==", Id(Cnt(L)), Lit(N(1)))>> }

Inc(x) == SExpr(Asg(x, Bin("+", Id(x), Lit(N(1)))))
WhileLoop(L, body) ==
  SBlock(<< SVar(Cnt(L), Lit(N(0))),
            SWhile(Bin("<", Id(Cnt(L)), Lit(N(3))), SBlock(<<Inc(Cnt(L)), SVar("v" \o Cnt(L), Id(Cnt(L))), Tp, body, Tp>>)),      \* vX: declared afresh in every iteration
            Tp, SPrint(Id(Cnt(L))) >>)          \* the counter as the loop left it
ForLoop(L, v, body) ==
  LET x == Cnt(L)  hasInit == v % 2 = 1  hasCond == (v \div 2) % 2 = 1  hasIncr == (v \div 4) % 2 = 1
      b == SBlock( (IF hasIncr THEN <<>> ELSE <<Inc(x)>>)
                   \o (IF hasCond THEN <<>> ELSE <<SIf(Bin(">=", Id(x), Lit(N(3))), SBreak, None)>>)
                   \o <<SVar("v" \o x, Id(x)), Tp, body, Tp>> )
      f == SFor(IF hasInit THEN SVar(x, Lit(N(0))) ELSE None,
                IF hasCond THEN Bin("<", Id(x), Lit(N(3))) ELSE None,
                IF hasIncr THEN Asg(x, Bin("+", Id(x), Lit(N(1)))) ELSE None, b)
  IN SBlock((IF hasInit THEN <<>> ELSE <<SVar(x, Lit(N(0)))>>) \o <<f, Tp>> \o (IF hasInit THEN <<>> ELSE <<SPrint(Id(x))>>))

(* sequences, not sets: TLC's union of large sets of large records is quadratic *)
Cross(A, B, F(_, _)) == FlattenSeq([i \in 1..Len(A) |-> [j \in 1..Len(B) |-> F(A[i], B[j])]])
Map(A, F(_)) == [i \in 1..Len(A) |-> F(A[i])]
Leaves(L) == <<[t |-> Tp, c |-> "T"]>> \o (IF L > 0 THEN <<[t |-> SBreak, c |-> "break"], [t |-> SContinue, c |-> "continue"]>> ELSE <<>>)
RECURSIVE Gen(_, _)
Gen(d, L) ==
  IF d = 0 THEN Leaves(L)
  ELSE LET sub == Gen(d - 1, L)  inl == Gen(d - 1, L + 1)  cds == SetToSeq(Conds(L)) IN
       Leaves(L)
       \o Cross(cds, sub, LAMBDA cd, x : [t |-> SIf(cd[2], x.t, None), c |-> "if_" \o cd[1] \o "(" \o x.c \o ")"])
       \o Cross(cds, sub, LAMBDA cd, x : [t |-> SIf(cd[2], x.t, Tp), c |-> "ifT_" \o cd[1] \o "(" \o x.c \o ")"])
       \o Cross(cds, sub, LAMBDA cd, x : [t |-> SIf(cd[2], Tp, x.t), c |-> "ifE_" \o cd[1] \o "(" \o x.c \o ")"])
       \o Map(inl, LAMBDA x : [t |-> WhileLoop(L + 1, x.t), c |-> "while(" \o x.c \o ")"])
       \o Cross(<<0, 1, 2, 3, 4, 5, 6, 7>>, inl, LAMBDA v, x : [t |-> ForLoop(L + 1, v, x.t), c |-> "for" \o IntStr(v) \o "(" \o x.c \o ")"])
       \* loops whose condition is a literal of each truthiness kind (a truthy one is left by break)
       \o (IF L > 0 THEN <<>> ELSE
          Map(SetToSeq(CondsOut), LAMBDA cd : [t |-> SWhile(cd[2], SBlock(<<Tp, SBreak>>)), c |-> "while-lit_" \o cd[1]])
          \o Map(SetToSeq(CondsOut), LAMBDA cd : [t |-> SFor(None, cd[2], None, SBlock(<<Tp, SBreak>>)), c |-> "for-lit_" \o cd[1]])
          \o Map(SetToSeq(CondsOut), LAMBDA cd : [t |-> SFor(SVar(Cnt(L + 1), Lit(N(0))), cd[2], Asg(Cnt(L + 1), Bin("+", Id(Cnt(L + 1)), Lit(N(1)))), SBlock(<<Tp, SIf(Bin(">=", Id(Cnt(L + 1)), Lit(N(1))), SBreak, None)>>)), c |-> "forfull-lit_" \o cd[1]]))
       \o Map(sub, LAMBDA x : [t |-> SBlock(<<x.t, Tp>>), c |-> "{" \o x.c \o ";T}"])
       \o Map(sub, LAMBDA x : [t |-> SBlock(<<Tp, x.t>>), c |-> "{T;" \o x.c \o "}"])
       \o (IF L = 0 THEN <<>> ELSE     \* a jump of THIS loop executed after an inner construct has finished
            Map(sub, LAMBDA x : [t |-> SBlock(<<x.t, SBreak, Tp>>), c |-> "{" \o x.c \o ";break}"])
            \o Map(sub, LAMBDA x : [t |-> SBlock(<<x.t, SIf(Bin("==", Id(Cnt(L)), Lit(N(2))), SContinue, None), Tp>>), c |-> "{" \o x.c \o ";if-continue}"])
            \o (LET inner == << [t |-> WhileLoop(L + 1, Tp), c |-> "while(T)"], [t |-> ForLoop(L + 1, 7, Tp), c |-> "for7(T)"],     \* ... in particular after an inner LOOP, at every depth
                               [t |-> WhileLoop(L + 1, SBreak), c |-> "while(break)"], [t |-> ForLoop(L + 1, 7, SContinue), c |-> "for7(continue)"] >> IN
                Map(inner, LAMBDA x : [t |-> SBlock(<<x.t, SBreak, Tp>>), c |-> "{" \o x.c \o ";break}"])
                \o Map(inner, LAMBDA x : [t |-> SBlock(<<x.t, SIf(Bin("==", Id(Cnt(L)), Lit(N(2))), SContinue, None), Tp>>), c |-> "{" \o x.c \o ";if-continue}"])))

Stray == LET sig == { <<"break", SBreak>>, <<"continue", SContinue>>, <<"return", SReturn(None)>>, <<"returnv", SReturn(Lit(N(7)))>> } IN
         { [t |-> s[2], c |-> "stray_" \o s[1]] : s \in sig }
         \cup { [t |-> SBlock(<<Tp, s[2], Tp>>), c |-> "stray_{" \o s[1] \o "}"] : s \in sig }
         \cup { [t |-> SIf(Lit(VBool(TRUE)), s[2], None), c |-> "stray_if(" \o s[1] \o ")"] : s \in sig }
         \cup { [t |-> SIf(Lit(N(0)), Tp, SBlock(<<s[2]>>)), c |-> "stray_else{" \o s[1] \o "}"] : s \in sig }
         \cup { [t |-> SBlock(<<SIf(Lit(S("x")), SBlock(<<Tp, s[2]>>), None), Tp>>), c |-> "stray_{if{" \o s[1] \o "}}"] : s \in sig }

RECURSIVE Tag(_)
Tag(t) == IF t.k = "none" THEN t
          ELSE IF t.k = "print" /\ t.c[1] = Lit(N(0)) THEN [t EXCEPT !.c = <<Lit(N(t.ln))>>]
          ELSE IF t.c = <<>> THEN t
          ELSE [t EXCEPT !.c = [i \in 1..Len(t.c) |-> Tag(t.c[i])]]

Cases == Gen(Depth, 0) \o SetToSeq(Stray)
Programs == TLCEval([i \in 1..Len(Cases) |-> Tag(LayoutProg(<<Tp, Cases[i].t, Tp>>, 1))])
FamProgOf(i) == Programs[i]

Init == \E i \in 1..Len(Programs) : InitSem(i, <<>>, FALSE)
Next == SemNext
EmitInv == (EmitOn /\ Final) =>
   Emit([fam |-> "control", cls |-> Cases[pid].c, key |-> "control#" \o IntStr(pid) \o ":" \o Cases[pid].c, pid |-> pid,
         toks |-> Compact(Yield(MinParen(P))), tree |-> P, stdin |-> stdin, repl |-> repl,
         status |-> status, why |-> why, out |-> out, diags |-> diags, natlog |-> natlog, steps |-> steps])
(* family-specific invariants *)
LoopsTerminate == status # "fuel"
OnlyStrayFails == status = "error" => diags[1].kind = "stray"
=============================================================================
