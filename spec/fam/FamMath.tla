------------------------------- MODULE FamMath -------------------------------
(* Program family for C17: every built-in x every argument count 0..4 x every combination of argument kinds; the
   numeric built-ins on boundary values and seeded random doubles; min/max over all orderings of small lists, in list
   form and in array form. *)
EXTENDS BornoSem, SequencesExt
CONSTANTS MaxArgs, NRandom, EmitOn

Num(i) == Lit(N(i))
Str(s) == Lit(S(s))
NumLit(s) == Lit(D(s))
Neg(e) == Un("-", e)
InfE == Bin("*", Lit(D("1e308")), Num(10))
Cross(A, B(_), F(_, _)) == FlattenSeq([i \in 1..Len(A) |-> LET bs == B(A[i]) IN [j \in 1..Len(bs) |-> F(A[i], bs[j])]])

(* ---- misuse matrix ---- *)
Kinds == << <<"nil", Lit(VNil)>>, <<"bool", Lit(VBool(TRUE))>>, <<"num", Num(2)>>, <<"str", Str("s")>>, <<"arr", Arr(<<Num(3), Num(1)>>)>>,
            <<"obj", Obj(<<"k">>, <<Num(1)>>)>>, <<"fn", Id("uf")>>, <<"nat", Id("len")>> >>
RECURSIVE ArgLists(_)      \* all sequences of n kinds (as sequences of indices into Kinds)
ArgLists(n) == IF n = 0 THEN << <<>> >> ELSE Cross(ArgLists(n - 1), LAMBDA h : [i \in 1..Len(Kinds) |-> i], LAMBDA h, k : Append(h, k))
RECURSIVE KName(_)
KName(ks) == IF ks = <<>> THEN "" ELSE Kinds[ks[1]][1] \o (IF Len(ks) > 1 THEN "," ELSE "") \o KName(Tail(ks))
BuiltinSeq == SetToSeq(Builtins \ {"input"})
AllArgLists == FlattenSeq([n \in 1..(MaxArgs + 1) |-> ArgLists(n - 1)])
ArityOK(b, n) == IF FixedArity[b] >= 0 THEN n <= FixedArity[b] + 1 ELSE TRUE       \* beyond arity+1 nothing new happens
MisuseCases == Cross(BuiltinSeq, LAMBDA b : SelectSeq(AllArgLists, LAMBDA ks : ArityOK(b, Len(ks))),
                     LAMBDA b, ks : [t |-> << SFun("uf", <<>>, <<>>), SPrint(Str("before")), SPrint(Call(Id(b), [i \in 1..Len(ks) |-> Kinds[ks[i]][2]])), SPrint(Str("after")) >>,
                                     c |-> "misuse:" \o b \o "/" \o IntStr(Len(ks)), key |-> "misuse:" \o b \o "(" \o KName(ks) \o ")", stdin |-> <<>>])
InputCases == << [t |-> <<SPrint(Call(Id("input"), <<>>)), SPrint(Call(Id("input"), <<Str("p>")>>)), SPrint(Call(Id("input"), <<Str("a"), Str("b")>>))>>, c |-> "misuse:input", key |-> "input:arity2", stdin |-> <<StrCps("l1"), StrCps(" l2 "), StrCps("l3")>>] >>
              \o [k \in 1..Len(Kinds) |-> [t |-> <<SFun("uf", <<>>, <<>>), SPrint(Call(Id("input"), <<Kinds[k][2]>>))>>, c |-> "misuse:input", key |-> "input:" \o Kinds[k][1], stdin |-> <<StrCps("l1")>>]]

(* ---- numeric arguments ---- *)
NumArgs == << <<"0", Num(0)>>, <<"-0", Neg(Num(0))>>, <<"0.5", NumLit("0.5")>>, <<"-0.5", Neg(NumLit("0.5"))>>, <<"1.5", NumLit("1.5")>>, <<"-1.5", Neg(NumLit("1.5"))>>,
             <<"2.5", NumLit("2.5")>>, <<"-2.5", Neg(NumLit("2.5"))>>, <<"0.49999999999999994", NumLit("0.49999999999999994")>>, <<"-0.49999999999999994", Neg(NumLit("0.49999999999999994"))>>,
             <<"2p52+0.5", NumLit("4503599627370496.5")>>, <<"2p52+1", NumLit("4503599627370497")>>, <<"-(2p52+1)", Neg(NumLit("4503599627370497"))>>, <<"2p53", NumLit("9007199254740992")>>,
             <<"1e308", NumLit("1e308")>>, <<"5e-324", NumLit("5e-324")>>, <<"inf", InfE>>, <<"-inf", Neg(InfE)>>, <<"nan", Bin("-", InfE, InfE)>>,
             <<"1", Num(1)>>, <<"-1", Neg(Num(1))>>, <<"2", Num(2)>>, <<"4", Num(4)>>, <<"-4", Neg(Num(4))>>, <<"3.67", NumLit("3.67")>>, <<"1e15+0.5", NumLit("1000000000000000.5")>>,
             <<"0.1", NumLit("0.1")>>, <<"100", Num(100)>>, <<"1048576.5", NumLit("1048576.5")>>, <<"-7.5", Neg(NumLit("7.5"))>> >>
RandArg(k) == LET x == Rand(SeedProp + 77, k) IN <<"r" \o IntStr(k), IF Digits(x).neg THEN Neg(Lit(VNum(FNeg(x)))) ELSE Lit(VNum(x))>>
NumArgsAll == NumArgs \o [k \in 1..NRandom |-> RandArg(k)]
Unary == <<"abs", "sqrt", "round", "sin", "cos", "tan">>
UnaryCases == Cross(Unary, LAMBDA f : NumArgsAll, LAMBDA f, a : [t |-> <<SPrint(Call(Id(f), <<a[2]>>))>>, c |-> "num:" \o f, key |-> f \o "(" \o a[1] \o ")", stdin |-> <<>>])
PowArgs == SubSeq(NumArgs, 1, 8) \o SubSeq(NumArgs, 17, 25) \o << <<"10", Num(10)>>, <<"-320", Neg(Num(320))>>, <<"-1074", Neg(Num(1074))>>, <<"-1030", Neg(Num(1030))>>, <<"1023", Num(1023)>>, <<"-3", Neg(Num(3))>> >>
PowCases == Cross(PowArgs, LAMBDA a : PowArgs, LAMBDA a, b : [t |-> <<SPrint(Call(Id("pow"), <<a[2], b[2]>>)), SPrint(Bin("**", a[2], b[2])),
                                                                     SPrint(Bin("==", Call(Id("pow"), <<a[2], b[2]>>), Bin("**", a[2], b[2])))>>,
                                                               c |-> "num:pow", key |-> "pow(" \o a[1] \o "," \o b[1] \o ")", stdin |-> <<>>])

(* ---- min / max: all orderings, list form and array form ---- *)
MM == << Num(3), Neg(Num(2)), NumLit("3.5"), Num(3), Neg(Num(0)), Num(0), InfE, Neg(InfE), NumLit("1.7976931348623157e308") >>
RECURSIVE Tuples(_, _)     \* all sequences of n indices 1..m
Tuples(n, m) == IF n = 0 THEN << <<>> >> ELSE Cross(Tuples(n - 1, m), LAMBDA h : [i \in 1..m |-> i], LAMBDA h, k : Append(h, k))
RECURSIVE TName(_)
TName(ks) == IF ks = <<>> THEN "" ELSE IntStr(ks[1]) \o TName(Tail(ks))
MMLists == FlattenSeq([n \in 1..3 |-> Tuples(n, 4)]) \o << <<5, 6>>, <<6, 5>>, <<1, 2, 3, 4>>, <<4, 3, 2, 1>>, <<2, 4, 1, 3>>,
                                                              <<7>>, <<8>>, <<7, 7>>, <<8, 8>>, <<7, 8>>, <<8, 7>>, <<7, 1>>, <<1, 8>>, <<9, 7>>, <<8, 9>>, <<9>>, <<7, 9, 8, 1>> >>
MinMaxCases == [i \in 1..Len(MMLists) |-> LET es == [j \in 1..Len(MMLists[i]) |-> MM[MMLists[i][j]]] IN
                  [t |-> << SPrint(Call(Id("min"), es)), SPrint(Call(Id("max"), es)), SPrint(Call(Id("min"), <<Arr(es)>>)), SPrint(Call(Id("max"), <<Arr(es)>>)) >>,
                   c |-> "minmax:" \o IntStr(Len(es)), key |-> "minmax:" \o TName(MMLists[i]), stdin |-> <<>>]]
               \o << [t |-> <<SPrint(Call(Id("min"), <<Arr(<<>>)>>))>>, c |-> "minmax:empty", key |-> "min([])", stdin |-> <<>>],
                     [t |-> <<SPrint(Call(Id("max"), <<Arr(<<>>)>>))>>, c |-> "minmax:empty", key |-> "max([])", stdin |-> <<>>],
                     [t |-> <<SVar("e", Call(Id("remove"), <<Arr(<<Num(1)>>), Num(0)>>)), SPrint(Call(Id("max"), <<Id("e")>>))>>, c |-> "minmax:empty", key |-> "max(emptied)", stdin |-> <<>>],
                     [t |-> <<SPrint(Call(Id("max"), <<Arr(<<Num(1), Num(2)>>), Num(5)>>))>>, c |-> "minmax:array-then-number", key |-> "max([1,2],5)", stdin |-> <<>>],
                     [t |-> <<SPrint(Call(Id("min"), <<Num(5), Arr(<<Num(1), Num(2)>>)>>))>>, c |-> "minmax:number-then-array", key |-> "min(5,[1,2])", stdin |-> <<>>],
                     [t |-> <<SPrint(Call(Id("max"), <<Arr(<<Arr(<<Num(1)>>), Num(2)>>)>>))>>, c |-> "minmax:nested-array", key |-> "max([[1],2])", stdin |-> <<>>],
                     [t |-> <<SPrint(Call(Id("min"), <<Arr(<<Num(1), Str("x")>>)>>))>>, c |-> "minmax:string-in-array", key |-> "min([1,x])", stdin |-> <<>>] >>

(* built-ins are values: each equals itself and nothing else, whatever holds it *)
SelfCases == [i \in 1..Len(BuiltinSeq) |-> LET b == BuiltinSeq[i]  o == BuiltinSeq[1 + (i % Len(BuiltinSeq))] IN
   [t |-> << SPrint(Bin("==", Id(b), Id(b))), SPrint(Bin("!=", Id(b), Id(b))), SVar("h", Id(b)), SPrint(Bin("==", Id("h"), Id(b))), SPrint(Bin("==", Id(b), Id(o))),
             SPrint(Bin("==", Arr(<<Id(b)>>), Arr(<<Id(b)>>))), SPrint(Id(b)), SPrint(Arr(<<Id(b)>>)), SIf(Id(b), SPrint(Num(1)), SPrint(Num(2))), SPrint(Bin("==", Id(b), Lit(VNil))) >>,
    c |-> "builtin-as-value", key |-> "self:" \o b, stdin |-> <<>>]]
(* built-in calls inside the arguments of built-in calls, after earlier calls *)
Ab(n) == Call(Id("abs"), <<Neg(Num(n))>>)
NestedCases == <<
  [t |-> << SExpr(Ab(7)), SPrint(Call(Id("min"), <<Num(1), Ab(5)>>)), SPrint(Call(Id("pow"), <<Num(2), Ab(3)>>)), SPrint(Bin("**", Num(2), Ab(3))),
            SPrint(Call(Id("max"), <<Ab(1), Ab(2), Ab(3)>>)), SPrint(Call(Id("min"), <<Call(Id("max"), <<Num(1), Num(9)>>), Call(Id("max"), <<Num(2), Call(Id("min"), <<Num(8), Num(7)>>)>>)>>)),
            SPrint(Call(Id("push"), <<Arr(<<>>), Call(Id("len"), <<Arr(<<Num(1)>>)>>), Call(Id("len"), <<Arr(<<Num(1), Num(2)>>)>>), Call(Id("round"), <<NumLit("2.5")>>)>>)),
            SPrint(Call(Id("round"), <<Call(Id("sqrt"), <<Call(Id("pow"), <<Num(3), Call(Id("abs"), <<Neg(Num(4))>>)>>)>>)>>)),
            SPrint(Call(Id("remove"), <<Call(Id("push"), <<Arr(<<Num(5)>>), Ab(6)>>), Call(Id("len"), <<Arr(<<Num(0)>>)>>)>>)) >>,
   c |-> "nested-builtins", key |-> "nested:numeric", stdin |-> <<>>],
  [t |-> << SFun("u", <<"a", "b">>, <<SReturn(Bin("-", Id("a"), Id("b")))>>), SPrint(Call(Id("u"), <<Ab(9), Call(Id("u"), <<Ab(1), Ab(2)>>)>>)),
            SPrint(Call(Id("min"), <<Call(Id("u"), <<Num(5), Ab(2)>>), Ab(4)>>)), SPrint(Call(Id("max"), <<Arr(<<Ab(1), Call(Id("min"), <<Num(7), Ab(8)>>)>>)>>)),
            SPrint(Call(Id("min"), <<Lit(VBool(TRUE)), Num(5), Num(2)>>)) >>,
   c |-> "nested-builtins", key |-> "nested:user-and-builtin", stdin |-> <<>>],
  [t |-> << SPrint(Call(Id("max"), <<Arr(<<Num(4), Lit(S("abc")), Num(2)>>)>>)) >>, c |-> "minmax:string-in-array", key |-> "max([4,abc,2])", stdin |-> <<>>],
  [t |-> << SPrint(Call(Id("min"), <<Lit(VNil), Num(2)>>)) >>, c |-> "minmax:nil-first", key |-> "min(nil,2)", stdin |-> <<>>],
  [t |-> << SPrint(Call(Id("max"), <<Num(1), Arr(<<>>), Num(2)>>)) >>, c |-> "minmax:array-in-the-middle", key |-> "max(1,[],2)", stdin |-> <<>>] >>
Cases == MisuseCases \o InputCases \o UnaryCases \o PowCases \o MinMaxCases \o SelfCases \o NestedCases
Programs == TLCEval([i \in 1..Len(Cases) |-> LayoutProg(Cases[i].t, 1)])
FamProgOf(i) == Programs[i]
Init == \E i \in 1..Len(Programs) : InitSem(i, Cases[i].stdin, FALSE)
Next == SemNext
EmitInv == (EmitOn /\ Final) =>
   Emit([fam |-> "math", cls |-> Cases[pid].c, key |-> Cases[pid].key, pid |-> pid,
         toks |-> Compact(Yield(MinParen(P))), tree |-> P, stdin |-> Cases[pid].stdin, repl |-> repl,
         status |-> status, why |-> why, out |-> out, diags |-> diags, natlog |-> natlog, steps |-> steps])
=============================================================================
