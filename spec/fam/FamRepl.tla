------------------------------- MODULE FamRepl -------------------------------
(* Family driver for C20: a pool of representative REPL input lines, given as source TEXT.  Each line goes through the
   whole pipeline of the specification in a FRESH session (declarative lexer, predictive recogniser, abstract machine in
   interactive mode) and is emitted with the response it must receive: echoed / printed values, a runtime diagnostic,
   or a static diagnostic and nothing else.  Because a line's response is defined as that of a fresh session, line
   independence (ReplLineIndependence) is the specification itself; the harness runs every SEQUENCE of lines up to a
   length bound through the real REPL and demands, for every position, exactly the emitted response of that line. *)
EXTENDS BornoFront, BornoSem, SequencesExt
CONSTANTS EmitOn, CheckLong

KW(k) == Keyword[k]
T(s) == StrCps(s)
(* a line that fails 150 calls deep.  TLC re-evaluates the front end of a line at every step of its run (the definition
   is not cached), which is unaffordable for a 3000-step run: this one line's tree is given directly, and an assumption
   checked at start-up says that the front end produces exactly this tree from the text. *)
DeepText == KW("FUN") \o T(" r(n){") \o KW("IF") \o T("(n<1)") \o KW("RETURN") \o T(" nil-1;") \o KW("RETURN") \o T(" r(n-1);}r(150);")
RECURSIVE OneLine(_)
OneLine(t) == LET u == IF "ln" \in DOMAIN t THEN [t EXCEPT !.ln = 1] ELSE t IN
              IF "c" \in DOMAIN u THEN [u EXCEPT !.c = [i \in 1..Len(u.c) |-> OneLine(u.c[i])]] ELSE u
DeepTree == OneLine(Prog(<< SFun("r", <<"n">>, << SIf(Bin("<", Id("n"), Lit(N(1))), SReturn(Bin("-", Lit(VNil), Lit(N(1)))), None), SReturn(Call(Id("r"), <<Bin("-", Id("n"), Lit(N(1)))>>)) >>),
                            SExpr(Call(Id("r"), <<Lit(N(150))>>)) >>))
(* a line longer than any reasonable input buffer (4200 letters in one string literal).  The declarative front end needs
   minutes for it, so its one-statement tree is given directly; the assumption that the front end agrees is checked in
   the thorough tier only (CheckLong). *)
RECURSIVE Rep(_, _)
Rep(ch, n) == IF n = 0 THEN <<>> ELSE <<ch>> \o Rep(ch, n - 1)
LongBody == Rep(97, 4200)
LongText == <<34>> \o LongBody \o <<34, 59>>
LongTree == OneLine(Prog(<< SExpr(Lit(VStr(LongBody))) >>))
Pool == <<
  KW("PRINT") \o T(" 1 + 2;"),
  T("7;"), T("\"s\";"), T("nil;"), KW("TRUE") \o T(";"), T("[1, 2];"), T("{k: 1};"), T("({k: 1, m: \"v\"});"), T("1 < 2;"), T("2 ** 10;"), T("\"a\" + 1;"), T("0.1 + 0.2;"), Builtin["len"] \o T("([1, 2, 3]);"),
  KW("VAR") \o T(" a = 1;"), KW("VAR") \o T(" a = 5; a + 1;"), T("{ 1; { 2; } }"), KW("FUN") \o T(" f(x) { ") \o KW("RETURN") \o T(" x * 2; } f(21);"),
  KW("IF") \o T(" (1) 10; ") \o KW("ELSE") \o T(" 20;"), KW("FOR") \o T(" (") \o KW("VAR") \o T(" i = 0; i < 2; i = i + 1) i;"),
  T("@"), T("1 @ 2;"), T("\"abc"), T("/* open"), T("1 +;"), T("1 + 2"), T(") ;"), KW("VAR") \o T(" ") \o Builtin["len"] \o T(" = 1;"), T("1 = 2;"),
  T("zz;"), T("1 / 0;"), T("nil + 1;"), T("[1][5];"), Builtin["len"] \o T("(5);"), KW("BREAK") \o T(";"), KW("RETURN") \o T(" 1;"),
  KW("PRINT") \o T(" 1; zz; ") \o KW("PRINT") \o T(" 2;"), T("1; 1/0; 3;"),
  KW("WHILE") \o T(" (") \o KW("TRUE") \o T(") { ") \o KW("PRINT") \o T(" zz; ") \o KW("BREAK") \o T("; }"),
  KW("FOR") \o T(" (;;) { 1 / 0; }"), KW("WHILE") \o T(" (1) { nil(); }"),
  KW("VAR") \o T(" i = 0; ") \o KW("WHILE") \o T(" (i < 3) { i = i + 1; i; }"),
  T(""), T("   "), T("// only a comment"), T("/* c */ 5;"),
  Builtin["len"] \o T(" = 0; ") \o Builtin["len"] \o T(";"), KW("VAR") \o T(" x = 1; x = zz; x;"),
  \* a line that fails 150 calls deep (sessions repeat it: whatever a failed line leaves behind must not add up), and lines that end in a comment
  T("1 + 2; // tail"), T("\"50%\";"), T("\"%d %s\" + 1;"), LongText, DeepText >>

DeepIdx == Len(Pool)
LongIdx == Len(Pool) - 1
Fronts == [i \in 1..Len(Pool) |-> IF i = DeepIdx THEN [accept |-> TRUE, tree |-> DeepTree] ELSE IF i = LongIdx THEN [accept |-> TRUE, tree |-> LongTree] ELSE FrontEnd(Pool[i])]
ASSUME CheckLong => LET f == FrontEnd(LongText) IN f.accept /\ f.tree = LongTree
ASSUME LET f == FrontEnd(DeepText) IN f.accept /\ f.tree = DeepTree
FamProgOf(i) == IF Fronts[i].accept THEN Fronts[i].tree ELSE Prog(<<>>)
Init == \E i \in 1..Len(Pool) :
          IF Fronts[i].accept THEN InitSem(i, <<>>, TRUE)
          ELSE /\ pid = i /\ repl = TRUE /\ stdin = <<>> /\ ctl = [m |-> "halt"] /\ kont = <<>> /\ cur = 2
               /\ envs = <<[parent |-> 0, vars |-> GlobalVars], [parent |-> 1, vars |-> <<>>]>>
               /\ heap = <<>> /\ ln = 0 /\ out = <<>> /\ diags = <<>> /\ natlog = <<>> /\ status = "rejected" /\ why = "" /\ steps = 0
Next == SemNext
EmitInv == (EmitOn /\ Final) =>
   Emit([fam |-> "repl", idx |-> pid, text |-> Pool[pid], status |-> status, why |-> why, out |-> out, diags |-> diags,
         static |-> IF Fronts[pid].accept THEN [n |-> 0, line |-> 0] ELSE [n |-> Fronts[pid].ndiag, line |-> Fronts[pid].line, lexerr |-> Fronts[pid].lexerr]])
NothingRunsOnStaticError == status = "rejected" => out = <<>> /\ natlog = <<>> /\ steps = 0
=============================================================================
