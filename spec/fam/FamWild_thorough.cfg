CONSTANTS
  ProgOf <- FamProgOf
  MaxSteps = 20000
  NRandom = 20000
  RandStmts = 6
  EmitOn = TRUE
INIT Init
NEXT Next
INVARIANTS TerminalIsClassified ErrorHasCause DoneIsClean ScopesWellFormed HeapWellFormed EmitInv
PROPERTIES NoEffectAfterError Monotone StoreLocal OutputAppendOnly
