------------------------------- MODULE FamGen -------------------------------
(* Seeded random WELL-BEHAVED programs: generated type-directed over a fixed cast (three numbers, three arrays two
   of which start as aliases, two objects that start as aliases, a pure function, a summing function, a function
   that writes through its parameter, two instances of a counter closure), so that - unlike the untyped random
   programs of FamWild, most of which fail in their first lines - they run for hundreds of steps through scopes,
   loops, calls, closures, shared arrays and objects before they print their whole state.  Every index is reduced
   modulo the current length, every divisor is made positive, every number is kept small by `% 1000`, so no run
   ends in an error and none enters a cell the specification leaves open: the abstract machine prescribes every
   line of output.  One slice of the family (selected by Slice) is replayed by each of C03, C04, C05, C11, C12
   and C14. *)
EXTENDS BornoSem, SequencesExt
CONSTANTS NRandom, Slice, EmitOn

Num(i) == Lit(N(i))
Str(s) == Lit(S(s))
Plus(a, b) == Bin("+", a, b)
Nat3(e) == Bin("%", Call(Id("abs"), <<e>>), Num(1000))         \* a small non-negative integer from any integer
Pos(e)  == Plus(Bin("%", Call(Id("abs"), <<e>>), Num(5)), Num(1))   \* 1..5
LenOf(a) == Call(Id("len"), <<Id(a)>>)
IdxIn(a, e) == Bin("%", Call(Id("abs"), <<e>>), LenOf(a))       \* a valid index of a (arrays of the cast are never empty)

Prelude == <<
  SVarList(<<SVar("n1", Num(3)), SVar("n2", Num(10)), SVar("n3", Num(0))>>),
  SVar("a1", Arr(<<Num(1), Num(2), Num(3)>>)), SVar("a2", Arr(<<Num(4), Num(5)>>)), SVar("a3", Id("a1")),
  SVar("o1", Obj(<<"k", "m">>, <<Num(1), Num(2)>>)), SVar("o2", Id("o1")),
  SFun("inc", <<"x">>, <<SReturn(Plus(Id("x"), Num(1)))>>),
  SFun("sum", <<"arr">>, << SVar("t", Num(0)),
                            SFor(SVar("i", Num(0)), Bin("<", Id("i"), Call(Id("len"), <<Id("arr")>>)), Asg("i", Plus(Id("i"), Num(1))),
                                 SBlock(<<SExpr(Asg("t", Plus(Id("t"), Idx(Id("arr"), Id("i")))))>>)),
                            SReturn(Id("t")) >>),
  SFun("setk", <<"o", "v">>, <<SExpr(PAsg(Id("o"), "k", Id("v"))), SReturn(Id("o"))>>),
  SFun("mk", <<"c">>, << SFun("step", <<>>, <<SExpr(Asg("c", Plus(Id("c"), Num(1)))), SReturn(Id("c"))>>), SReturn(Id("step")) >>),
  SVar("s1", Call(Id("mk"), <<Num(0)>>)), SVar("s2", Call(Id("mk"), <<Num(100)>>))
>>
ShowAll == << SPrint(Arr(<<Id("n1"), Id("n2"), Id("n3")>>)), SPrint(Id("a1")), SPrint(Id("a2")), SPrint(Id("a3")), SPrint(Id("o1")), SPrint(Id("o2")),
              SPrint(Arr(<<Call(Id("s1"), <<>>), Call(Id("s2"), <<>>)>>)) >>

NVars == <<"n1", "n2", "n3">>
AVars == <<"a1", "a2", "a3">>
OVars == <<"o1", "o2">>
Keys == <<"k", "m">>
Pick(seq, s, i) == seq[1 + RandInt(s, i, Len(seq))]

(* numeric expressions: total, integer valued; `loc` is the sequence of local numeric names in scope *)
RECURSIVE NExpr(_, _, _, _)
NExpr(s, i, d, loc) ==
  LET r == RandInt(s, i, IF d = 0 THEN 6 ELSE 16)  nv == NVars \o loc IN
  CASE r = 0 -> Num(RandInt(s, i + 1, 10))
    [] r \in {1, 2} -> Id(Pick(nv, s, i + 1))
    [] r = 3 -> LET a == Pick(AVars, s, i + 1) IN Idx(Id(a), IdxIn(a, Id(Pick(nv, s, i + 2))))
    [] r = 4 -> Prop(Id(Pick(OVars, s, i + 1)), Pick(Keys, s, i + 2))
    [] r = 5 -> LenOf(Pick(AVars, s, i + 1))
    [] r \in {6, 7, 8} -> Bin(Pick(<<"+", "-", "*">>, s, i + 1), NExpr(s, 2 * i + 3, d - 1, loc), NExpr(s, 2 * i + 4, d - 1, loc))
    [] r = 9 -> Bin("%", NExpr(s, 2 * i + 3, d - 1, loc), Pos(NExpr(s, 2 * i + 4, d - 1, loc)))
    [] r = 10 -> Call(Id("inc"), <<NExpr(s, 2 * i + 3, d - 1, loc)>>)
    [] r = 11 -> Call(Id(Pick(<<"s1", "s2">>, s, i + 1)), <<>>)
    [] r = 12 -> Call(Id("sum"), <<Id(Pick(AVars, s, i + 1))>>)
    [] r = 13 -> Bin(Pick(<<"&", "|", "^">>, s, i + 1), Nat3(NExpr(s, 2 * i + 3, d - 1, loc)), Nat3(NExpr(s, 2 * i + 4, d - 1, loc)))
    [] r = 14 -> Un("-", NExpr(s, 2 * i + 3, d - 1, loc))
    [] OTHER -> Call(Id("min"), <<NExpr(s, 2 * i + 3, d - 1, loc), NExpr(s, 2 * i + 4, d - 1, loc)>>)
RECURSIVE Cond(_, _, _, _)
Cond(s, i, d, loc) ==
  LET r == RandInt(s, i, IF d = 0 THEN 4 ELSE 7) IN
  CASE r \in {0, 1, 2, 3} -> Bin(Pick(<<"<", "<=", "==", "!=", ">">>, s, i + 1), NExpr(s, 2 * i + 3, 1, loc), NExpr(s, 2 * i + 4, 1, loc))
    [] r = 4 -> Log("and", Cond(s, 2 * i + 3, d - 1, loc), Cond(s, 2 * i + 4, d - 1, loc))
    [] r = 5 -> Log("or", Cond(s, 2 * i + 3, d - 1, loc), Cond(s, 2 * i + 4, d - 1, loc))
    [] OTHER -> Un("!", Cond(s, 2 * i + 3, d - 1, loc))

(* statements; L = loop nesting (0: no break / continue), cnt = name of the innermost loop counter *)
LoopVar(L) == IF L = 0 THEN "i" ELSE IF L = 1 THEN "j" ELSE "w"
RECURSIVE Stmt(_, _, _, _, _)
RECURSIVE Stmts(_, _, _, _, _, _)
Stmt(s, i, d, loc, L) ==
  LET r == RandInt(s, i, IF d = 0 THEN 12 ELSE 20)  e == NExpr(s, 3 * i + 5, 2, loc)  e2 == NExpr(s, 3 * i + 6, 1, loc) IN
  CASE r \in {0, 1} -> SExpr(Asg(Pick(NVars \o SelectSeq(loc, LAMBDA v : v \notin {"i", "j", "w"}), s, i + 1), Nat3(e)))     \* loop counters are read, never assigned: loops end
    [] r = 2 -> LET a == Pick(AVars, s, i + 1) IN SExpr(IAsg(Id(a), IdxIn(a, e2), Nat3(e)))
    [] r = 3 -> LET a == Pick(AVars, s, i + 1) IN SExpr(Asg(a, Call(Id("push"), <<Id(a), Nat3(e)>>)))
    [] r = 4 -> LET a == Pick(AVars, s, i + 1) IN SIf(Bin(">", LenOf(a), Num(2)), SExpr(Asg(a, Call(Id("remove"), <<Id(a), IdxIn(a, e2)>>))), None)
    [] r = 5 -> SExpr(PAsg(Id(Pick(OVars, s, i + 1)), Pick(Keys, s, i + 2), Nat3(e)))
    [] r = 6 -> SPrint(e)
    [] r = 7 -> SPrint(Id(Pick(AVars \o OVars, s, i + 1)))
    [] r = 8 -> SExpr(Asg(Pick(AVars, s, i + 1), Id(Pick(AVars, s, i + 2))))                \* aliasing
    [] r = 9 -> SExpr(Asg(Pick(OVars, s, i + 1), IF RandInt(s, i + 2, 2) = 0 THEN Id(Pick(OVars, s, i + 3)) ELSE Obj(<<"m", "k">>, <<Nat3(e), Nat3(e2)>>)))
    [] r = 10 -> SExpr(Call(Id("setk"), <<Id(Pick(OVars, s, i + 1)), Nat3(e)>>))
    [] r = 11 -> (IF L > 0 THEN SIf(Cond(s, 3 * i + 7, 1, loc), IF RandInt(s, i + 1, 2) = 0 THEN SBreak ELSE SContinue, None) ELSE SPrint(Plus(Str("v="), e)))
    [] r \in {12, 13} -> SIf(Cond(s, 3 * i + 7, 2, loc), SBlock(Stmts(s, 5 * i + 11, 1 + RandInt(s, i + 1, 2), d - 1, loc, L)),
                             IF RandInt(s, i + 2, 2) = 0 THEN None ELSE SBlock(Stmts(s, 5 * i + 12, 1 + RandInt(s, i + 3, 2), d - 1, loc, L)))
    [] r = 14 -> LET x == IF RandInt(s, i + 1, 3) = 0 THEN "n1" ELSE "t" \o IntStr(d) IN      \* a block with a local, every third time shadowing a global
                 SBlock(<<SVar(x, Nat3(e))>>
                        \o Stmts(s, 5 * i + 11, 1 + RandInt(s, i + 2, 2), d - 1, IF x = "n1" THEN loc ELSE Append(loc, x), L)
                        \o <<SPrint(Id(x))>>)
    [] r \in {15, 16} -> LET x == LoopVar(L) IN
                 SFor(SVar(x, Num(0)), Bin("<", Id(x), Num(2 + RandInt(s, i + 1, 2))), Asg(x, Plus(Id(x), Num(1))),
                      SBlock(Stmts(s, 5 * i + 11, 1 + RandInt(s, i + 2, 3), d - 1, Append(loc, x), L + 1)))
    [] r = 17 -> LET x == LoopVar(L) IN
                 SBlock(<< SVar(x, Num(0)),
                           SWhile(Bin("<", Id(x), Num(2 + RandInt(s, i + 1, 2))),
                                  SBlock(<<SExpr(Asg(x, Plus(Id(x), Num(1))))>> \o Stmts(s, 5 * i + 11, 1 + RandInt(s, i + 2, 2), d - 1, Append(loc, x), L + 1))),
                           SPrint(Id(x)) >>)
    [] r = 18 -> LET f == "h" \o IntStr(d)  p == "p" \o IntStr(d) IN      \* a local function closing over what is in scope, called twice
                 SBlock(<< SFun(f, <<p>>, Stmts(s, 5 * i + 11, 1 + RandInt(s, i + 1, 2), d - 1, Append(loc, p), 0) \o <<SReturn(Plus(Id(p), e2))>>),
                           SPrint(Call(Id(f), <<Nat3(e)>>)), SExpr(Asg(Pick(NVars, s, i + 2), Call(Id(f), <<Num(RandInt(s, i + 3, 10))>>))) >>)
    [] OTHER -> SVar("g" \o IntStr(i), Nat3(e))     \* (practically) fresh global: declared once, never read again
Stmts(s, i, n, d, loc, L) == IF n = 0 THEN <<>> ELSE <<Stmt(s, i, d, loc, L)>> \o Stmts(s, i + 7919, n - 1, d, loc, L)

(* no two top-level `g...` declarations of one program may collide *)
RECURSIVE GlobalNames(_)
GlobalNames(ss) == IF ss = <<>> THEN <<>> ELSE (IF Head(ss).k = "var" THEN <<Head(ss).name>> ELSE <<>>) \o GlobalNames(Tail(ss))
Distinct(q) == \A a, b \in 1..Len(q) : q[a] = q[b] => a = b
Body(k) == LET s == SeedProp * 65536 + Slice * 4096 + k IN Stmts(s, 1, 6 + RandInt(s, 0, 5), 2, <<>>, 0)
Cases == SelectSeq([k \in 1..NRandom |-> [key |-> "gen" \o IntStr(Slice) \o "." \o IntStr(SeedProp) \o "." \o IntStr(k), b |-> Body(k)]], LAMBDA x : Distinct(GlobalNames(x.b)))
Programs == TLCEval([i \in 1..Len(Cases) |-> LayoutProg(Prelude \o Cases[i].b \o ShowAll, 1)])
FamProgOf(i) == Programs[i]
Init == \E i \in 1..Len(Programs) : InitSem(i, <<>>, FALSE)
Next == SemNext
EmitInv == (EmitOn /\ Final) =>
   Emit([fam |-> "gen", cls |-> "slice" \o IntStr(Slice), key |-> Cases[pid].key, pid |-> pid,
         toks |-> Compact(Yield(MinParen(P))), tree |-> P, stdin |-> stdin, repl |-> repl,
         status |-> status, why |-> why, out |-> out, diags |-> diags, natlog |-> natlog, steps |-> steps])
(* the family's own claim: generated programs are well behaved - they end normally, inside the specified part *)
WellBehaved == Final => status \in {"done", "fuel"}
=============================================================================
