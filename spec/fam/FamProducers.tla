---------------------------- MODULE FamProducers ----------------------------
(* Program family for C16: every context with one hole x every string / number value x every producer of that value.
   In the specification a value has exactly one representation, so all producers of the same value give the same
   behaviour by construction; each program is replayed and must behave as the specification says - hence identically
   for every pair of producers. *)
EXTENDS BornoSem, SequencesExt
CONSTANTS EmitOn

Num(i) == Lit(N(i))
Str(s) == Lit(S(s))
Id1(e) == Call(Id("id"), <<e>>)

(* ---- producers ---- *)
SplitAt(s) == IF Len(s) <= 1 THEN <<s, <<>>>> ELSE <<SubSeq(s, 1, Len(s) \div 2), SubSeq(s, Len(s) \div 2 + 1, Len(s))>>
StrProducers(s) == {   \* s: code points
  <<"literal", Lit(VStr(s))>>,
  <<"concat", Bin("+", Lit(VStr(SplitAt(s)[1])), Lit(VStr(SplitAt(s)[2])))>>,
  <<"property", Prop(Obj(<<"k">>, <<Lit(VStr(s))>>), "k")>>,
  <<"property-store", Prop(Id("holder"), "k")>>,
  <<"element", Idx(Arr(<<Lit(VStr(s))>>), Num(0))>>,
  <<"function", Id1(Lit(VStr(s)))>>,
  <<"returned-literal", Call(Id("lit0"), <<>>)>>,      \* a function whose body is `return <the literal>`
  <<"input", Call(Id("input"), <<>>)>> }
  \cup (IF s = StrCps("12")    \* round 7: the text of a number spliced to the empty string on either side
        THEN { <<"empty-plus-number", Bin("+", Lit(VStr(<<>>)), Num(12))>>, <<"number-plus-empty", Bin("+", Num(12), Lit(VStr(<<>>)))>> } ELSE {})
StrVals == { <<"empty", <<>>>>, <<"abc", StrCps("abc")>>, <<"12", StrCps("12")>>, <<"b1.5", <<2535, 46, 2539>>>>, <<"k", StrCps("k")>>,
             <<"yya", <<2488, 2478, 2527>>>> }       \* contains precomposed U+09DF: NFC would rewrite it

IntProducers(n) == {   \* n: small non-negative TLC integer
  <<"literal", Num(n)>>,
  <<"arith", Bin("-", Num(n + 5), Num(5))>>,
  <<"and", Bin("&", Num(n), Lit(D("1048575")))>>,
  <<"or0", Bin("|", Num(n), Num(0))>>,
  <<"shift", Bin(">>", Num(n * 4), Num(2))>>,
  <<"round", Call(Id("round"), <<Bin("+", Num(n), Lit(D("0.2")))>>)>>,
  <<"abs", Call(Id("abs"), <<Un("-", Num(n))>>)>>,
  <<"function", Id1(Num(n))>>,
  <<"min", Call(Id("min"), <<Num(n), Num(n + 1)>>)>> }
  \cup (IF n <= 3 THEN { <<"len", Call(Id("len"), <<Arr([i \in 1..n |-> Num(0)])>>)>> } ELSE {})
  \cup (IF n = 0 THEN { <<"shl-out", Bin("<<", Num(1), Num(64))>>, <<"shr-out", Bin(">>", Num(5), Num(70))>>, <<"mod", Bin("%", Num(6), Num(3))>>, <<"xor", Bin("^", Num(5), Num(5))>> } ELSE {})
BigProducers == {    \* 2^20 = 1048576 >= 10^6
  <<"literal", Lit(D("1048576"))>>, <<"arith", Bin("*", Num(1024), Num(1024))>>, <<"shift", Bin("<<", Num(1), Num(20))>>,
  <<"or0", Bin("|", Lit(D("1048576")), Num(0))>>, <<"pow", Bin("**", Num(2), Num(20))>>, <<"round", Call(Id("round"), <<Lit(D("1048576.2"))>>)>>,
  <<"function", Id1(Lit(D("1048576")))>>, <<"mod", Bin("%", Lit(D("11048576")), Lit(D("10000000")))>>, <<"div", Bin("/", Lit(D("2097152")), Num(2))>>,
  <<"min", Call(Id("min"), <<Lit(D("1048576")), Lit(D("2000000"))>>)>>, <<"neg-neg", Un("-", Un("-", Lit(D("1048576"))))>> }
HugeProducers == {   \* 2^60: beyond 2^53 but exactly a double
  <<"literal", Lit(D("1152921504606846976"))>>, <<"arith", Bin("*", Lit(D("1073741824")), Lit(D("1073741824")))>>, <<"shift", Bin("<<", Num(1), Num(60))>>,
  <<"or0", Bin("|", Lit(D("1152921504606846976")), Num(0))>>, <<"pow", Bin("**", Num(2), Num(60))>>, <<"abs", Call(Id("abs"), <<Un("-", Lit(D("1152921504606846976")))>>)>>,
  <<"function", Id1(Bin("<<", Num(1), Num(60)))>>, <<"mod", Bin("%", Lit(D("1152921504606846976")), Lit(D("2305843009213693952")))>> }
FracProducers == {   \* 2.5: not an integer, whoever made it
  <<"literal", Lit(D("2.5"))>>, <<"arith", Bin("/", Num(5), Num(2))>>, <<"minus", Bin("-", Num(3), Lit(D("0.5")))>>, <<"function", Id1(Lit(D("2.5")))>>,
  <<"abs", Call(Id("abs"), <<Un("-", Lit(D("2.5")))>>)>>, <<"min", Call(Id("min"), <<Lit(D("2.5")), Num(9)>>)>>, <<"neg-neg", Un("-", Un("-", Lit(D("2.5"))))>> }
NumVals == { <<"2.5", FracProducers>>, <<"0", IntProducers(0)>>, <<"1", IntProducers(1)>>, <<"3", IntProducers(3)>>, <<"7", IntProducers(7)>>, <<"2p20", BigProducers>>, <<"2p60", HugeProducers>> }

(* ---- contexts with one hole h ---- *)
BinOpsAll == {"+","-","*","/","%","**","<","<=",">",">=","==","!=","&","|","^","<<",">>"}
Ctx(h) ==
     { <<"L" \o op \o "num", SPrint(Bin(op, h, Num(2)))>> : op \in BinOpsAll }
  \cup { <<"R" \o op \o "num", SPrint(Bin(op, Num(6), h))>> : op \in BinOpsAll }
  \cup { <<"L" \o op \o "str", SPrint(Bin(op, h, Str("x")))>> : op \in {"+", "==", "!=", "<"} }
  \cup { <<"R" \o op \o "str", SPrint(Bin(op, Str("x"), h))>> : op \in {"+", "==", "!=", "<"} }
  \cup { <<"eq-stored", SPrint(Bin("==", h, Prop(Id("holder"), "k")))>>, <<"neq-stored", SPrint(Bin("!=", Prop(Id("holder"), "k"), h))>>,
         <<"key-of-stored", SPrint(Call(Id("delkey"), <<Obj(<<"k", "abc", CpsStr(<<2488, 2478, 2527>>)>>, <<Num(1), Num(2), Num(3)>>), h>>))>>,
         <<"self==", SPrint(Bin("==", h, h))>>, <<"un-", SPrint(Un("-", h))>>, <<"un~", SPrint(Un("~", h))>>, <<"un!", SPrint(Un("!", h))>>,
         <<"if", SIf(h, SPrint(Str("T")), SPrint(Str("F")))>>, <<"or", SPrint(Log("or", h, Str("R")))>>, <<"and", SPrint(Log("and", h, Str("R")))>>,
         <<"while", SWhile(h, SBlock(<<SPrint(Str("W")), SBreak>>))>>,
         <<"index", SPrint(Idx(Arr(<<Num(10), Num(20), Num(30), Num(40)>>), h))>>, <<"index-store", SExpr(IAsg(Id("arr4"), h, Num(9)))>>,
         <<"delkey", SPrint(Call(Id("delkey"), <<Obj(<<"k", "abc">>, <<Num(1), Num(2)>>), h>>))>>,
         <<"print", SPrint(h)>>, <<"in-array", SPrint(Arr(<<h, Num(1)>>))>>, <<"in-object", SPrint(Obj(<<"p">>, <<h>>))>>,
         <<"stored-elem", SExpr(IAsg(Id("arr4"), Num(0), h))>>, <<"stored-prop", SExpr(PAsg(Id("holder"), "q", h))>>,
         <<"callee", SPrint(Call(Grp(h), <<>>))>>, <<"prop-of", SPrint(Prop(h, "k"))>>, <<"index-of", SPrint(Idx(h, Num(0)))>>,
         <<"abs", SPrint(Call(Id("abs"), <<h>>))>>, <<"sqrt", SPrint(Call(Id("sqrt"), <<h>>))>>, <<"round", SPrint(Call(Id("round"), <<h>>))>>,
         <<"pow-base", SPrint(Call(Id("pow"), <<h, Num(2)>>))>>, <<"pow-exp", SPrint(Call(Id("pow"), <<Num(2), h>>))>>,
         <<"min", SPrint(Call(Id("min"), <<h, Num(2)>>))>>, <<"max-array", SPrint(Call(Id("max"), <<Arr(<<Num(2), h>>)>>))>>,
         <<"len", SPrint(Call(Id("len"), <<h>>))>>, <<"push-value", SPrint(Call(Id("push"), <<Arr(<<Num(1)>>), h>>))>>,
         <<"remove-index", SPrint(Call(Id("remove"), <<Arr(<<Num(1), Num(2), Num(3), Num(4)>>), h>>))>>,
         <<"input-prompt", SPrint(Call(Id("input"), <<h>>))>>, <<"keys", SPrint(Call(Id("keys"), <<h>>))>>, <<"sin", SPrint(Call(Id("sin"), <<h>>))>>,
         <<"var", SVar("nv", h)>>, <<"arg", SPrint(Call(Id("show2"), <<h, h>>))>>, <<"return", SPrint(Call(Id("ret"), <<>>))>> }

Prelude(s) == << SFun("id", <<"x">>, <<SReturn(Id("x"))>>), SFun("show2", <<"a", "b">>, <<SPrint(Id("a")), SReturn(Bin("==", Id("a"), Id("b")))>>),
                 SVar("arr4", Arr(<<Num(10), Num(20), Num(30), Num(40)>>)), SVar("holder", Obj(<<"z">>, <<Num(0)>>)), SExpr(PAsg(Id("holder"), "k", s)),
                 SFun("lit0", <<>>, <<SReturn(s)>>) >>
Tail2 == << SPrint(Id("arr4")), SPrint(Id("holder")) >>
(* sequences, not sets: TLC's union of large sets of large values is quadratic *)
Cross(A, B(_), F(_, _)) == FlattenSeq([i \in 1..Len(A) |-> LET bs == B(A[i]) IN [j \in 1..Len(bs) |-> F(A[i], bs[j])]])
StrCase(v, p, cx) == [t |-> Prelude(Lit(VStr(v[2]))) \o <<SFun("ret", <<>>, <<SReturn(p[2])>>), cx[2]>> \o Tail2, stdin |-> <<v[2], v[2], v[2]>>,
                      c |-> cx[1] \o "|str:" \o v[1] \o "|" \o p[1], key |-> cx[1] \o "|str:" \o v[1] \o "|" \o p[1]]
NumCase(v, p, cx) == [t |-> Prelude(Num(0)) \o <<SFun("ret", <<>>, <<SReturn(p[2])>>), cx[2]>> \o Tail2, stdin |-> <<>>,
                      c |-> cx[1] \o "|num:" \o v[1] \o "|" \o p[1], key |-> cx[1] \o "|num:" \o v[1] \o "|" \o p[1]]
StrCases == FlattenSeq([vi \in 1..Len(SetToSeq(StrVals)) |-> LET v == SetToSeq(StrVals)[vi] IN
               Cross(SetToSeq(StrProducers(v[2])), LAMBDA p : SetToSeq(Ctx(p[2])), LAMBDA p, cx : StrCase(v, p, cx))])
NumCases == FlattenSeq([vi \in 1..Len(SetToSeq(NumVals)) |-> LET v == SetToSeq(NumVals)[vi] IN
               Cross(SetToSeq(v[2]), LAMBDA p : SetToSeq(Ctx(p[2])), LAMBDA p, cx : NumCase(v, p, cx))])
Cases == StrCases \o NumCases
Programs == TLCEval([i \in 1..Len(Cases) |-> LayoutProg(Cases[i].t, 1)])
FamProgOf(i) == Programs[i]
Init == \E i \in 1..Len(Programs) : InitSem(i, Cases[i].stdin, FALSE)
Next == SemNext
EmitInv == (EmitOn /\ Final) =>
   Emit([fam |-> "producers", cls |-> Cases[pid].c, key |-> Cases[pid].key, pid |-> pid,
         toks |-> Compact(Yield(MinParen(P))), tree |-> P, stdin |-> Cases[pid].stdin, repl |-> repl,
         status |-> status, why |-> why, out |-> out, diags |-> diags, natlog |-> natlog, steps |-> steps])
=============================================================================
