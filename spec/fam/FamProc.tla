------------------------------- MODULE FamProc -------------------------------
(* Family driver for C19 (process level): TLC explores BornoProc completely; every terminal state is emitted as an
   abstract run (argument count, extension ok, file readable, outcome class -> exit status, whether anything ran,
   whether a message is due).  The harness instantiates each abstract run with several concrete command lines and
   programs of that class and checks exit status, stdout and stderr of the real executable. *)
EXTENDS BornoProc, Host
EmitInv == phase = "exit" => Emit([fam |-> "proc", nargs |-> nargs, extOK |-> extOK, fileOK |-> fileOK, class |-> class, exit |-> exit, ran |-> ran, msg |-> msg, lines |-> lines])
=============================================================================
