------------------------------- MODULE FamText -------------------------------
(* Family driver for C08 at the character level: every text of at most MaxFrag fragments (characters, comment
   openers, keywords, reserved names) is tokenised by the declarative BornoLex!Tokens and the token list is judged by the
   predictive recogniser BornoGrammar: the text is accepted iff it has no lexical diagnostic and the recogniser
   accepts; otherwise, when there is no lexical error, the first diagnostic must name the line of the first offending
   token (or of the end of input). *)
EXTENDS BornoLex, BornoFront, SequencesExt
CONSTANTS MaxFrag, MaxKwFrag, EmitOn

CharFrags == { <<c>> : c \in (DOMAIN Op1) \cup {QUOTE, NL, SP, 97, 2453, 2494, 48, 2543, 64} }
             \cup { <<47, 42>>, <<42, 47>>, <<47, 47>> }
KwFrags   == { Keyword[k] : k \in KeywordTypes } \cup { Builtin["len"], ReservedExtra }

Init == text = <<>> /\ nfr = 0 /\ phase = "build" /\ pos = 1 /\ line = 1 /\ toks = <<>> /\ diags = <<>>
Extend == /\ nfr < MaxFrag
          /\ \E f \in CharFrags \cup (IF nfr < MaxKwFrag THEN KwFrags ELSE {}) : text' = text \o f
          /\ nfr' = nfr + 1 /\ UNCHANGED <<phase, pos, line, toks, diags>>
Next == Extend
TextView == text

Lexed == Tokens(text)
GToks == LET tk == Lexed.toks IN [i \in 1..(Len(tk) - 1) |-> GTok(tk[i])]
Verdict == LET lx == Lexed  g == GToks  r == Parse(g) IN
           IF lx.diags # <<>> THEN [accept |-> FALSE, lexerr |-> TRUE, line |-> lx.diags[1]]
           ELSE IF r.ok THEN [accept |-> TRUE, lexerr |-> FALSE, line |-> 0]
           ELSE [accept |-> FALSE, lexerr |-> FALSE, line |-> lx.toks[r.at].ln, ateq |-> r.at <= Len(g) /\ g[r.at] = Op("=")]
EmitInv == EmitOn => Emit([fam |-> "text", text |-> text, v |-> Verdict])
=============================================================================
