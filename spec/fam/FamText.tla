------------------------------- MODULE FamText -------------------------------
(* Family driver for C08 at the character level: every text of at most MaxFrag fragments (characters, comment
   openers, keywords, reserved names) is tokenised by the declarative BornoLex!Tokens and the token list is judged by the
   predictive recogniser BornoGrammar: the text is accepted iff it has no lexical diagnostic and the recogniser
   accepts; otherwise, when there is no lexical error, the first diagnostic must name the line of the first offending
   token (or of the end of input). *)
EXTENDS BornoLex, BornoGrammar, SequencesExt
CONSTANTS MaxFrag, MaxKwFrag, EmitOn

CharFrags == { <<c>> : c \in (DOMAIN Op1) \cup {QUOTE, NL, SP, 97, 2453, 2494, 48, 2543, 64} }
             \cup { <<47, 42>>, <<42, 47>>, <<47, 47>> }
KwFrags   == { Keyword[k] : k \in KeywordTypes } \cup { Builtin["len"], ReservedExtra }

KwName(ty) == CASE ty = "FUN" -> "fun" [] ty = "VAR" -> "var" [] ty = "FOR" -> "for" [] ty = "IF" -> "if" [] ty = "ELSE" -> "else" [] ty = "WHILE" -> "while"
                [] ty = "TRUE" -> "true" [] ty = "FALSE" -> "false" [] ty = "NIL" -> "nil" [] ty = "PRINT" -> "print" [] ty = "RETURN" -> "return"
                [] ty = "BREAK" -> "break" [] ty = "CONTINUE" -> "continue" [] ty = "LOGICAL_AND" -> "and" [] ty = "LOGICAL_OR" -> "or"
SymName(lex) == IF \E b \in BuiltinNames : Builtin[b] = lex THEN CHOOSE b \in BuiltinNames : Builtin[b] = lex
                ELSE IF lex = ReservedExtra THEN "input_ascii" ELSE "x"
GTok(tk) == CASE tk.ty = "IDENTIFIER" -> IdT(SymName(tk.lex))
              [] tk.ty = "NUMBER" -> [t |-> "num", x |-> tk.lit.n]
              [] tk.ty = "STRING" -> [t |-> "str", x |-> "s"]
              [] tk.ty \in KeywordTypes /\ tk.lex \in { Keyword[k] : k \in KeywordTypes } -> Kw(KwName(tk.ty))
              [] OTHER -> Op(CpsStr(tk.lex))      \* operators, including the symbol spellings && and ||

Init == text = <<>> /\ nfr = 0 /\ phase = "build" /\ pos = 1 /\ line = 1 /\ toks = <<>> /\ diags = <<>>
Extend == /\ nfr < MaxFrag
          /\ \E f \in CharFrags \cup (IF nfr < MaxKwFrag THEN KwFrags ELSE {}) : text' = text \o f
          /\ nfr' = nfr + 1 /\ UNCHANGED <<phase, pos, line, toks, diags>>
Next == Extend
TextView == text

Lexed == Tokens(text)
GToks == LET tk == Lexed.toks IN [i \in 1..(Len(tk) - 1) |-> GTok(tk[i])]
Verdict == LET lx == Lexed  g == GToks  r == Parse(g) IN
           IF lx.diags # <<>> THEN [accept |-> FALSE, lexerr |-> TRUE, line |-> lx.diags[1]]
           ELSE IF r.ok THEN [accept |-> TRUE, lexerr |-> FALSE, line |-> 0]
           ELSE [accept |-> FALSE, lexerr |-> FALSE, line |-> lx.toks[r.at].ln, ateq |-> r.at <= Len(g) /\ g[r.at] = Op("=")]
EmitInv == EmitOn => Emit([fam |-> "text", text |-> text, v |-> Verdict])
=============================================================================
