------------------------------ MODULE FamSmoke ------------------------------
EXTENDS BornoSem
Programs == <<
  LayoutProg(<< SVar("a", Lit(N(1))), SPrint(Bin("+", Id("a"), Bin("*", Lit(N(2)), Lit(N(3))))),
                SWhile(Bin("<", Id("a"), Lit(N(3))), SBlock(<<SPrint(Id("a")), SExpr(Asg("a", Bin("+", Id("a"), Lit(N(1)))))>>)),
                SFun("f", <<"x">>, << SIf(Bin(">", Id("x"), Lit(N(0))), SReturn(Bin("*", Id("x"), Call(Id("f"), <<Bin("-", Id("x"), Lit(N(1)))>>))), None), SReturn(Lit(N(1))) >>),
                SPrint(Call(Id("f"), <<Lit(N(5))>>)),
                SVar("o", Obj(<<"k", "z">>, <<Lit(S("v")), Arr(<<Lit(N(1)), Lit(D("2.5"))>>)>>)),
                SPrint(Id("o")), SPrint(Call(Id("keys"), <<Id("o")>>)),
                SPrint(Bin("+", Lit(S("n=")), Lit(D("1048576")))),
                SPrint(Bin("/", Lit(N(1)), Lit(N(0)))),
                SPrint(Lit(S("unreachable"))) >>, 1),
  LayoutProg(<< SFor(SVar("i", Lit(N(0))), Bin("<", Id("i"), Lit(N(4))), Asg("i", Bin("+", Id("i"), Lit(N(1)))),
                   SBlock(<< SIf(Bin("==", Id("i"), Lit(N(1))), SContinue, None), SIf(Bin("==", Id("i"), Lit(N(3))), SBreak, None), SPrint(Id("i")) >>)),
                SPrint(Call(Id("input"), <<Lit(S("p> "))>>)), SBreak >>, 1)
>>
FamProgOf(i) == Programs[i]
Init == \E i \in 1..Len(Programs) : InitSem(i, << StrCps("  hello ") >>, FALSE)
Next == SemNext
EmitInv == Final => Emit([fam |-> "smoke", pid |-> pid, toks |-> Compact(Yield(MinParen(P))), tree |-> P, status |-> status, why |-> why,
                          out |-> out, diags |-> diags, natlog |-> natlog, steps |-> steps])
=============================================================================
