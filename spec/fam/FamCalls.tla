------------------------------ MODULE FamCalls ------------------------------
(* Program family for C04: `return` at every nesting of if / else / while / for / block inside a function body,
   recursion with per-activation locals, every interleaving of calls to sibling closures of two instances of a
   counter factory, every callee kind x argument count x arity, positional binding with distinct arguments,
   and functions stored in variables, arrays, objects and returned from functions. *)
EXTENDS BornoSem, SequencesExt, SanitySets
CONSTANTS CtxDepth, HistLen, EmitOn, Stress

Num(i) == Lit(N(i))
Str(s) == Lit(S(s))
T(s) == SPrint(Str(s))
Inc(x) == SExpr(Asg(x, Bin("+", Id(x), Num(1))))
CntName(d) == IF d = 1 THEN "i" ELSE IF d = 2 THEN "j" ELSE "k"

(* ---- (a) return at every nesting ---- *)
CtxKinds == {"ifT", "ifE", "blk", "wh1", "wh2", "for1", "for2", "forO"}
Wrap(kind, d, body) ==
  LET x == CntName(d)  hit == IF kind \in {"wh1", "for1"} THEN 1 ELSE 2 IN
  CASE kind = "ifT" -> SIf(Bin("<", Num(1), Num(2)), body, T("else"))
    [] kind = "ifE" -> SIf(Bin(">", Num(1), Num(2)), T("then"), body)
    [] kind = "blk" -> SBlock(<<T("b1"), body, T("b2")>>)
    [] kind \in {"wh1", "wh2"} ->
         SBlock(<< SVar(x, Num(0)),
                   SWhile(Bin("<", Id(x), Num(3)), SBlock(<< Inc(x), SPrint(Id(x)), SIf(Bin("==", Id(x), Num(hit)), body, None), T("w") >>)),
                   T("after-while") >>)
    [] kind = "forO" ->      \* the loop variable lives outside the function: a return must not run the increment once more
         SBlock(<< SFor(SExpr(Asg("G", Num(1))), Bin("<=", Id("G"), Num(3)), Asg("G", Bin("+", Id("G"), Num(1))),
                        SBlock(<< SPrint(Id("G")), SIf(Bin("==", Id("G"), Num(2)), body, None), T("fo") >>)),
                   T("after-forO") >>)
    [] kind \in {"for1", "for2"} ->
         SBlock(<< SFor(SVar(x, Num(1)), Bin("<=", Id(x), Num(3)), Asg(x, Bin("+", Id(x), Num(1))),
                        SBlock(<< SPrint(Id(x)), SIf(Bin("==", Id(x), Num(hit)), body, None), T("f") >>)),
                   T("after-for") >>)
RECURSIVE Ctxs(_)      \* [w |-> function applying the context, c |-> name]  represented as sequences of kinds (outermost first)
Ctxs(d) == IF d = 0 THEN { <<>> } ELSE Ctxs(d - 1) \cup { <<k>> \o r : k \in CtxKinds, r \in { x \in Ctxs(d - 1) : Len(x) = d - 1 } }
RECURSIVE ApplyCtx(_, _, _)
ApplyCtx(ks, d, body) == IF ks = <<>> THEN body ELSE Wrap(ks[1], d, ApplyCtx(Tail(ks), d + 1, body))
RECURSIVE CtxName(_)
CtxName(ks) == IF ks = <<>> THEN "" ELSE ks[1] \o (IF Len(ks) > 1 THEN ">" ELSE "") \o CtxName(Tail(ks))
Rets == { <<"retv", SReturn(Bin("+", Id("x"), Num(1)))>>, <<"ret", SReturn(None)>>, <<"none", T("no-return")>> }
ReturnCases ==
  { [t |-> << SVar("G", Num(0)), SFun("f", <<"x">>, << T("in"), ApplyCtx(ks, 1, r[2]), T("fell-through"), SReturn(Num(99)) >>),
              SPrint(Call(Id("f"), <<Num(5)>>)), SPrint(Id("G")), T("end") >>,
     c |-> "return:" \o r[1] \o ":" \o CtxName(ks), key |-> "return:" \o r[1] \o ":" \o CtxName(ks)] : ks \in (Ctxs(CtxDepth) \ {<<>>}), r \in Rets }

(* ---- (b) recursion: fresh activations ---- *)
Fact == SFun("fact", <<"n">>, << SVar("loc", Bin("*", Id("n"), Num(10))),
                                 SIf(Bin("<=", Id("n"), Num(1)), SReturn(Num(1)), None),
                                 SVar("r", Bin("*", Id("n"), Call(Id("fact"), <<Bin("-", Id("n"), Num(1))>>))),
                                 SPrint(Id("loc")), SPrint(Id("n")), SReturn(Id("r")) >>)
Fib  == SFun("fib", <<"n">>, << SIf(Bin("<", Id("n"), Num(2)), SReturn(Id("n")), None),
                                SVar("a", Call(Id("fib"), <<Bin("-", Id("n"), Num(1))>>)),
                                SVar("b", Call(Id("fib"), <<Bin("-", Id("n"), Num(2))>>)),
                                SReturn(Bin("+", Id("a"), Id("b"))) >>)
Even == SFun("even", <<"n">>, << SIf(Bin("==", Id("n"), Num(0)), SReturn(Lit(VBool(TRUE))), None), SReturn(Call(Id("odd"), <<Bin("-", Id("n"), Num(1))>>)) >>)
Odd  == SFun("odd", <<"n">>, << SIf(Bin("==", Id("n"), Num(0)), SReturn(Lit(VBool(FALSE))), None), SReturn(Call(Id("even"), <<Bin("-", Id("n"), Num(1))>>)) >>)
Ack  == SFun("ack", <<"m", "n">>, << SIf(Bin("==", Id("m"), Num(0)), SReturn(Bin("+", Id("n"), Num(1))), None),
                                     SIf(Bin("==", Id("n"), Num(0)), SReturn(Call(Id("ack"), <<Bin("-", Id("m"), Num(1)), Num(1)>>)), None),
                                     SReturn(Call(Id("ack"), <<Bin("-", Id("m"), Num(1)), Call(Id("ack"), <<Id("m"), Bin("-", Id("n"), Num(1))>>)>>)) >>)
Weave == SFun("w", <<"d", "acc">>, << SIf(Bin("==", Id("d"), Num(0)), SReturn(Id("acc")), None),
                                      SReturn(Call(Id("w"), <<Bin("-", Id("d"), Num(1)), Bin("+", Call(Id("w"), <<Bin("-", Id("d"), Num(1)), Id("acc")>>), Id("d"))>>)) >>)
RecCases ==
     { [t |-> <<Fact, SPrint(Call(Id("fact"), <<Num(n)>>))>>, c |-> "rec:fact", key |-> "rec:fact" \o IntStr(n)] : n \in 1..6 }
  \cup { [t |-> <<Fib, SPrint(Call(Id("fib"), <<Num(n)>>))>>, c |-> "rec:fib", key |-> "rec:fib" \o IntStr(n)] : n \in 0..6 }
  \cup { [t |-> <<Even, Odd, SPrint(Call(Id("even"), <<Num(n)>>)), SPrint(Call(Id("odd"), <<Num(n)>>))>>, c |-> "rec:evenodd", key |-> "rec:evenodd" \o IntStr(n)] : n \in 0..5 }
  \cup { [t |-> <<Ack, SPrint(Call(Id("ack"), <<Num(m), Num(n)>>))>>, c |-> "rec:ack", key |-> "rec:ack" \o IntStr(m) \o "," \o IntStr(n)] : m \in 0..2, n \in 0..3 }
  \cup { [t |-> <<Ack, Weave>> \o [i \in 1..4 |-> SPrint(Call(Id("ack"), <<Num(IF i = 1 THEN 1 ELSE 2), Num(i - 1)>>))]
                 \o [i \in 1..3 |-> SPrint(Call(Id("w"), <<Num(i), Num(0)>>))],
          c |-> "rec:reentrant-call-sites", key |-> "rec:reentrant-call-sites"] }

(* ---- (c) closures: two instances of a factory, two sibling closures each, every interleaving of calls ---- *)
Make == SFun("make", <<"s">>, << SVar("n", Id("s")),
                                 SFun("inc", <<>>, <<SExpr(Asg("n", Bin("+", Id("n"), Num(1)))), SReturn(Id("n"))>>),
                                 SFun("get", <<>>, <<SReturn(Id("n"))>>),
                                 SReturn(Arr(<<Id("inc"), Id("get")>>)) >>)
OpsC == << SPrint(Call(Idx(Id("A"), Num(0)), <<>>)), SPrint(Call(Idx(Id("A"), Num(1)), <<>>)),
           SPrint(Call(Idx(Id("B"), Num(0)), <<>>)), SPrint(Call(Idx(Id("B"), Num(1)), <<>>)) >>
RECURSIVE Hists(_)
Hists(n) == IF n = 0 THEN { <<>> } ELSE Hists(n - 1) \cup { Append(h, o) : h \in { x \in Hists(n - 1) : Len(x) = n - 1 }, o \in 1..4 }
RECURSIVE HName(_)
HName(h) == IF h = <<>> THEN "" ELSE IntStr(h[1]) \o HName(Tail(h))
ClosureCases ==
  { [t |-> << Make, SVar("A", Call(Id("make"), <<Num(10)>>)), SVar("B", Call(Id("make"), <<Num(20)>>)) >> \o [i \in 1..Len(h) |-> OpsC[h[i]]],
     c |-> "closure:hist" \o IntStr(Len(h)), key |-> "closure:" \o HName(h)] : h \in Hists(HistLen) }
  \cup { [t |-> << SFun("outer", <<>>, << SVar("v", Num(1)), SFun("get", <<>>, <<SReturn(Id("v"))>>), SExpr(Asg("v", Num(2))), SReturn(Id("get")) >>),
                   SVar("g", Call(Id("outer"), <<>>)), SPrint(Call(Id("g"), <<>>)), SVar("h", Call(Id("outer"), <<>>)), SPrint(Call(Id("h"), <<>>)),
                   SPrint(Bin("==", Id("g"), Id("g"))) >>, c |-> "closure:late-update", key |-> "closure:late-update"],
         \* a captured variable is a shared cell: a read, a change made by a sibling closure, and a second read in ONE activation
         [t |-> << SFun("mk", <<>>, << SVar("n", Num(0)), SFun("inc", <<>>, <<SExpr(Asg("n", Bin("+", Id("n"), Num(1)))), SReturn(Id("n"))>>),
                                      SFun("twice", <<>>, <<SVar("before", Id("n")), SExpr(Call(Id("inc"), <<>>)), SExpr(Call(Id("inc"), <<>>)), SPrint(Id("n")), SReturn(Bin("-", Id("n"), Id("before")))>>),
                                      SReturn(Arr(<<Id("inc"), Id("twice")>>)) >>),
                   SVar("c", Call(Id("mk"), <<>>)), SPrint(Call(Idx(Id("c"), Num(1)), <<>>)), SPrint(Call(Idx(Id("c"), Num(0)), <<>>)), SPrint(Call(Idx(Id("c"), Num(1)), <<>>)),
                   SVar("g", Num(1)), SFun("setg", <<"v">>, <<SExpr(Asg("g", Id("v")))>>),
                   SFun("watch", <<>>, << SPrint(Id("g")), SExpr(Call(Id("setg"), <<Num(2)>>)), SPrint(Id("g")), SBlock(<<SPrint(Id("g")), SExpr(Call(Id("setg"), <<Num(3)>>)), SPrint(Id("g"))>>),
                                         SFor(SVar("i", Num(0)), Bin("<", Id("i"), Num(2)), Asg("i", Bin("+", Id("i"), Num(1))), SBlock(<<SPrint(Id("g")), SExpr(Call(Id("setg"), <<Bin("+", Id("g"), Num(10))>>)), SPrint(Id("g"))>>)) >>),
                   SExpr(Call(Id("watch"), <<>>)), SPrint(Id("g")) >>,
          c |-> "closure:read-sibling-write-read", key |-> "closure:read-sibling-write-read"],
         \* a returned literal is an ordinary value of its kind
         [t |-> << SFun("e", <<>>, <<SReturn(Str(""))>>), SFun("t3", <<>>, <<SReturn(Str("x3"))>>), SFun("z", <<>>, <<SReturn(Num(0))>>), SFun("nl", <<>>, <<SReturn(Lit(VNil))>>),
                   SPrint(Un("!", Call(Id("e"), <<>>))), SIf(Call(Id("e"), <<>>), T("empty-truthy"), T("empty-falsy")), SPrint(Log("or", Call(Id("e"), <<>>), Str("R"))),
                   SPrint(Log("and", Call(Id("e"), <<>>), Str("R"))), SWhile(Call(Id("e"), <<>>), SBlock(<<T("loop"), SBreak>>)),
                   SPrint(Arr(<<Call(Id("t3"), <<>>), Call(Id("e"), <<>>), Call(Id("t3"), <<>>)>>)), SPrint(Obj(<<"k">>, <<Call(Id("t3"), <<>>)>>)), SPrint(Bin("==", Call(Id("t3"), <<>>), Str("x3"))),
                   SPrint(Bin("+", Call(Id("t3"), <<>>), Num(1))), SPrint(Call(Id("len"), <<Arr(<<Call(Id("e"), <<>>)>>)>>)), SPrint(Un("!", Call(Id("z"), <<>>))), SPrint(Log("or", Call(Id("nl"), <<>>), Num(5))),
                   SVar("h", Obj(<<"a">>, <<Num(1)>>)), SExpr(PAsg(Id("h"), "s", Call(Id("t3"), <<>>))), SPrint(Id("h")), SPrint(Bin("==", Prop(Id("h"), "s"), Call(Id("t3"), <<>>))) >>,
          c |-> "return:literal-values", key |-> "return:literal-values"],
         \* a closure declared one block deeper than the variable it captures, used after both blocks have ended
         [t |-> << SVar("fs", Arr(<<Num(0), Num(0), Num(0)>>)),
                   SFor(SVar("i", Num(0)), Bin("<", Id("i"), Num(3)), Asg("i", Bin("+", Id("i"), Num(1))),
                        SBlock(<< SVar("k", Bin("*", Id("i"), Num(10))),
                                  SIf(Lit(VBool(TRUE)), SBlock(<< SVar("m", Bin("+", Id("k"), Num(1))),
                                                                 SBlock(<< SFun("g", <<>>, <<SExpr(Asg("k", Bin("+", Id("k"), Num(1)))), SIf(Bin(">", Id("k"), Num(0)), SBlock(<< SVar("loc", Id("m")), SReturn(Bin("+", Id("k"), Id("loc"))) >>), None), SReturn(Bin("+", Id("k"), Id("m")))>>), SExpr(IAsg(Id("fs"), Id("i"), Id("g"))) >>) >>), None) >>)),
                   SBlock(<< SVar("other", Num(777)), SBlock(<< SVar("other2", Num(888)), SPrint(Id("other2")) >>) >>),
                   SPrint(Call(Idx(Id("fs"), Num(0)), <<>>)), SPrint(Call(Idx(Id("fs"), Num(2)), <<>>)), SPrint(Call(Idx(Id("fs"), Num(0)), <<>>)), SPrint(Call(Idx(Id("fs"), Num(1)), <<>>)),
                   SFun("viaIf", <<>>, << SIf(Num(1), SBlock(<< SPrint(Call(Idx(Id("fs"), Num(2)), <<>>)) >>), None) >>), SExpr(Call(Id("viaIf"), <<>>)) >>,
          c |-> "closure:declared-deeper-than-captured", key |-> "closure:declared-deeper-than-captured"],
         \* closures made in a loop body, kept in an array, called from the top level; their bodies open blocks of their own
         [t |-> << SVar("jobs", Arr(<<>>)),
                   SFor(SVar("st", Num(1)), Bin("<=", Id("st"), Num(3)), Asg("st", Bin("+", Id("st"), Num(1))),
                        SBlock(<< SVar("mult", Bin("*", Id("st"), Num(10))),
                                  SFun("job", <<"v">>, << SIf(Bin(">", Id("v"), Num(0)), SBlock(<< SReturn(Bin("*", Id("v"), Id("mult"))) >>), None), SReturn(Num(0)) >>),
                                  SExpr(Asg("jobs", Call(Id("push"), <<Id("jobs"), Id("job")>>))) >>)),
                   SPrint(Call(Id("len"), <<Id("jobs")>>)), SPrint(Call(Idx(Id("jobs"), Num(0)), <<Num(0)>>)), SPrint(Call(Idx(Id("jobs"), Num(0)), <<Num(2)>>)), SPrint(Call(Idx(Id("jobs"), Num(2)), <<Num(2)>>)),
                   SBlock(<< SPrint(Call(Idx(Id("jobs"), Num(1)), <<Num(3)>>)) >>), SPrint(Call(Idx(Id("jobs"), Num(1)), <<Call(Id("abs"), <<Un("-", Num(4))>>)>>)) >>,
          c |-> "closure:loop-made-with-own-blocks", key |-> "closure:loop-made-with-own-blocks"],
         \* a bare return after valued returns have happened; thousands of calls that end through return
         [t |-> << SFun("val", <<"x">>, <<SReturn(Bin("+", Id("x"), Num(1)))>>),
                   SFun("find", <<"a", "x">>, << SFor(SVar("i", Num(0)), Bin("<", Id("i"), Call(Id("len"), <<Id("a")>>)), Asg("i", Bin("+", Id("i"), Num(1))),
                                                      SBlock(<<SIf(Bin("==", Idx(Id("a"), Id("i")), Id("x")), SReturn(Id("i")), None)>>)), SReturn(None) >>),
                   SPrint(Call(Id("val"), <<Num(1)>>)), SPrint(Call(Id("find"), <<Arr(<<Num(5), Num(6)>>), Num(6)>>)), SPrint(Call(Id("find"), <<Arr(<<Num(5), Num(6)>>), Num(7)>>)),
                   SPrint(Call(Id("val"), <<Num(8)>>)), SPrint(Call(Id("find"), <<Arr(<<>>), Num(1)>>)),
                   SFun("lim", <<"n">>, << SWhile(Lit(VBool(TRUE)), SBlock(<< SIf(Bin(">", Id("n"), Num(1)), SReturn(None), None), SReturn(Id("n")) >>)) >>),
                   SPrint(Call(Id("lim"), <<Num(1)>>)), SPrint(Call(Id("lim"), <<Num(2)>>)), SPrint(Arr(<<Call(Id("lim"), <<Num(0)>>), Call(Id("lim"), <<Num(5)>>)>>)) >>,
          c |-> "return:bare-after-valued", key |-> "return:bare-after-valued"],
         \* the function's own name inside its body: an assignment to it in one activation is not what another activation sees
         [t |-> << SFun("f", <<"n">>, << SIf(Bin("==", Id("n"), Num(0)), SBlock(<< SExpr(Asg("f", Num(7))), SPrint(Id("f")), SReturn(Num(0)) >>), None),
                                        SVar("r", Call(Id("f"), <<Bin("-", Id("n"), Num(1))>>)), SPrint(Bin("==", Id("f"), Num(7))), SReturn(Bin("+", Id("r"), Num(1))) >>),
                   SPrint(Call(Id("f"), <<Num(2)>>)), SPrint(Call(Id("f"), <<Num(1)>>)) >>,
          c |-> "closure:own-name-assigned", key |-> "closure:own-name-assigned"],
         [t |-> << SVar("acc", Num(0)), SFun("add", <<"d">>, <<SExpr(Asg("acc", Bin("+", Id("acc"), Id("d")))), SReturn(Id("acc"))>>),
                   SPrint(Call(Id("add"), <<Num(5)>>)), SExpr(Asg("acc", Num(100))), SPrint(Call(Id("add"), <<Num(1)>>)), SPrint(Id("acc")) >>,
          c |-> "closure:global-capture", key |-> "closure:global-capture"],
         [t |-> << SFor(SVar("i", Num(0)), Bin("<", Id("i"), Num(3)), Asg("i", Bin("+", Id("i"), Num(1))),
                        SBlock(<< SVar("x", Bin("*", Id("i"), Num(10))), SFun("g", <<>>, <<SReturn(Id("x"))>>), SPrint(Call(Id("g"), <<>>)) >>)),
                   SFun("outer", <<"n">>, << SVar("m", Bin("+", Id("n"), Num(100))), SFun("h", <<>>, <<SReturn(Id("m"))>>), SReturn(Call(Id("h"), <<>>)) >>),
                   SPrint(Call(Id("outer"), <<Num(1)>>)), SPrint(Call(Id("outer"), <<Num(2)>>)) >>,
          c |-> "closure:redeclared-per-entry-called-by-name", key |-> "closure:redeclared-per-entry-called-by-name"],
         [t |-> << SFun("mk", <<"s">>, << SVar("n", Id("s")),
                                         SIf(Bin(">", Id("s"), Num(0)), SBlock(<< SFun("inc", <<>>, <<SExpr(Asg("n", Bin("+", Id("n"), Num(1)))), SReturn(Id("n"))>>), SReturn(Id("inc")) >>), None),
                                         SWhile(Lit(VBool(TRUE)), SBlock(<< SFun("dec", <<>>, <<SExpr(Asg("n", Bin("-", Id("n"), Num(1)))), SReturn(Id("n"))>>), SReturn(Id("dec")) >>)) >>),
                   SVar("a", Call(Id("mk"), <<Num(10)>>)), SPrint(Call(Id("a"), <<>>)), SPrint(Call(Id("a"), <<>>)),
                   SVar("b", Call(Id("mk"), <<Num(99)>>)), SPrint(Call(Id("b"), <<>>)), SPrint(Call(Id("a"), <<>>)),
                   SVar("c", Call(Id("mk"), <<Un("-", Num(5))>>)), SPrint(Call(Id("c"), <<>>)), SPrint(Call(Id("b"), <<>>)), SPrint(Call(Id("a"), <<>>)) >>,
          c |-> "closure:inner-function-in-nested-block", key |-> "closure:inner-function-in-nested-block"],
         [t |-> << SFun("one", <<"a">>, <<SReturn(Bin("*", Id("a"), Num(2)))>>), SFun("two", <<"a", "b">>, <<SReturn(Bin("+", Id("a"), Id("b")))>>), SFun("zero", <<>>, <<SReturn(Num(0))>>),
                   SFun("apply", <<"fn", "v">>, <<SReturn(Call(Id("fn"), <<Id("v")>>))>>),
                   SPrint(Call(Id("apply"), <<Id("one"), Num(21)>>)), SPrint(Call(Id("apply"), <<Id("abs"), Un("-", Num(3))>>)),
                   SPrint(Call(Id("apply"), <<Id("two"), Num(21)>>)), T("unreachable") >>,
          c |-> "callee:same-site-other-arity", key |-> "callee:same-site-two-then-more-params"],
         [t |-> << SFun("one", <<"a">>, <<SReturn(Id("a"))>>), SFun("zero", <<>>, <<SReturn(Num(0))>>), SFun("apply", <<"fn", "v">>, <<SReturn(Call(Id("fn"), <<Id("v")>>))>>),
                   SPrint(Call(Id("apply"), <<Id("one"), Num(1)>>)), SPrint(Call(Id("apply"), <<Id("zero"), Num(1)>>)), T("unreachable") >>,
          c |-> "callee:same-site-other-arity", key |-> "callee:same-site-then-fewer-params"],
         [t |-> << SFun("one", <<"a">>, <<SReturn(Id("a"))>>), SFun("apply", <<"fn", "v">>, <<SReturn(Call(Id("fn"), <<Id("v")>>))>>),
                   SPrint(Call(Id("apply"), <<Id("one"), Num(1)>>)), SPrint(Call(Id("apply"), <<Num(5), Num(1)>>)), T("unreachable") >>,
          c |-> "callee:same-site-other-arity", key |-> "callee:same-site-then-non-function"],
         [t |-> << SVar("fs", Arr(<<Num(0), Num(0), Num(0)>>)),
                   SFor(SVar("i", Num(0)), Bin("<", Id("i"), Num(3)), Asg("i", Bin("+", Id("i"), Num(1))),
                        SBlock(<< SVar("c", Bin("*", Id("i"), Num(100))),
                                  SFun("cell", <<>>, <<SExpr(Asg("c", Bin("+", Id("c"), Num(1)))), SReturn(Id("c"))>>),
                                  SExpr(IAsg(Id("fs"), Id("i"), Id("cell"))) >>)),
                   SPrint(Call(Idx(Id("fs"), Num(0)), <<>>)), SPrint(Call(Idx(Id("fs"), Num(0)), <<>>)), SPrint(Call(Idx(Id("fs"), Num(1)), <<>>)),
                   SPrint(Call(Idx(Id("fs"), Num(2)), <<>>)), SPrint(Call(Idx(Id("fs"), Num(0)), <<>>)) >>,
          c |-> "closure:loop-body-cells", key |-> "closure:loop-body-cells"] }

(* ---- (d) callee kind x number of arguments x declared arity ---- *)
Callees == { <<"nil", Lit(VNil)>>, <<"bool", Lit(VBool(TRUE))>>, <<"num", Num(5)>>, <<"str", Str("s")>>, <<"arr", Arr(<<Num(1)>>)>>, <<"obj", Obj(<<"k">>, <<Num(1)>>)>>,
             <<"f0", Id("f0")>>, <<"f1", Id("f1")>>, <<"f2", Id("f2")>>, <<"f3", Id("f3")>>, <<"len", Id("len")>>, <<"clock", Id("clock")>>, <<"undefined", Id("zz")>> }
FDecls == << SFun("f0", <<>>, <<SReturn(Str("r0"))>>), SFun("f1", <<"a">>, <<SReturn(Id("a"))>>),
             SFun("f2", <<"a", "b">>, <<SReturn(Id("b"))>>), SFun("f3", <<"a", "b", "c">>, <<SReturn(Id("c"))>>),
             SFun("P", <<"t">>, <<SPrint(Id("t")), SReturn(Id("t"))>>) >>
ArgsOf(n) == [i \in 1..n |-> Call(Id("P"), <<Num(i)>>)]
CalleeCases == { [t |-> FDecls \o <<T("before"), SPrint(Call(cl[2], ArgsOf(n))), T("after")>>,
                  c |-> "callee:" \o cl[1] \o "/" \o IntStr(n), key |-> "callee:" \o cl[1] \o "/" \o IntStr(n)] : cl \in Callees, n \in 0..3 }

(* ---- (e) positional binding with pairwise distinct arguments ---- *)
Vals3 == << Num(1), Str("two"), Lit(VBool(TRUE)) >>
Perm3 == { <<1,2,3>>, <<1,3,2>>, <<2,1,3>>, <<2,3,1>>, <<3,1,2>>, <<3,2,1>> }
BindCases ==
  { [t |-> << SFun("h", <<"a", "b", "c">>, <<SPrint(Id("a")), SPrint(Id("b")), SPrint(Id("c")), SReturn(Arr(<<Id("c"), Id("b"), Id("a")>>))>>),
              SPrint(Call(Id("h"), <<Vals3[p[1]], Vals3[p[2]], Vals3[p[3]]>>)) >>,
     c |-> "bind:3", key |-> "bind:3:" \o IntStr(p[1]) \o IntStr(p[2]) \o IntStr(p[3])] : p \in Perm3 }
  \cup { [t |-> << SFun("h2", <<"a", "b">>, <<SReturn(Bin("-", Id("a"), Id("b")))>>), SPrint(Call(Id("h2"), <<Num(10), Num(3)>>)),
                   SFun("h4", <<"a", "b", "c", "d">>, <<SReturn(Bin("+", Bin("+", Bin("*", Id("a"), Num(1000)), Bin("*", Id("b"), Num(100))), Bin("+", Bin("*", Id("c"), Num(10)), Id("d"))))>>),
                   SPrint(Call(Id("h4"), <<Num(1), Num(2), Num(3), Num(4)>>)),
                   SFun("dup", <<"a", "a">>, <<SReturn(Id("a"))>>), SPrint(Call(Id("dup"), <<Num(1), Num(2)>>)) >>, c |-> "bind:2-4", key |-> "bind:2-4"] }

(* ---- (f) functions as values ---- *)
ValueCases ==
  { [t |-> << SFun("f", <<"x">>, <<SReturn(Bin("*", Id("x"), Num(2)))>>),
              SVar("g", Id("f")), SPrint(Call(Id("g"), <<Num(1)>>)),
              SVar("arr", Arr(<<Id("f")>>)), SPrint(Call(Idx(Id("arr"), Num(0)), <<Num(2)>>)),
              SVar("o", Obj(<<"m">>, <<Id("f")>>)), SPrint(Call(Prop(Id("o"), "m"), <<Num(3)>>)),
              SFun("mk", <<>>, <<SReturn(Id("f"))>>), SPrint(Call(Call(Id("mk"), <<>>), <<Num(4)>>)),
              SFun("twice", <<"fn", "v">>, <<SReturn(Call(Id("fn"), <<Call(Id("fn"), <<Id("v")>>)>>))>>), SPrint(Call(Id("twice"), <<Id("f"), Num(5)>>)),
              SPrint(Id("f")), SPrint(Call(Id("f"), <<Call(Id("f"), <<Num(1)>>)>>)) >>, c |-> "value:stored", key |-> "value:stored"],
    [t |-> << SFun("f", <<>>, << SFun("g", <<>>, <<SReturn(Str("inner"))>>), SReturn(Call(Id("g"), <<>>)) >>), SPrint(Call(Id("f"), <<>>)),
              SFun("noret", <<>>, <<SVar("q", Num(1))>>), SPrint(Call(Id("noret"), <<>>)),
              SFun("f", <<>>, <<SReturn(Str("redefined"))>>), SPrint(Call(Id("f"), <<>>)) >>, c |-> "value:nested-decl", key |-> "value:nested-decl"] }

(* thorough tier only: thousands of calls that end through return (the scopes of finished calls are never freed in the
   model, so the run is quadratic for TLC: minutes) *)
StressCases == IF ~Stress THEN {} ELSE {
         [t |-> << SFun("k", <<"x">>, <<SReturn(Bin("+", Id("x"), Num(1)))>>), SVar("i", Num(0)), SVar("s", Num(0)),
                   SWhile(Bin("<", Id("i"), Num(2600)), SBlock(<< SExpr(Asg("s", Call(Id("k"), <<Id("s")>>))), SExpr(Asg("i", Call(Id("k"), <<Id("i")>>))) >>)),
                   SPrint(Id("s")), SFun("sum", <<"n">>, << SIf(Bin("==", Id("n"), Num(0)), SReturn(Num(0)), None), SReturn(Bin("+", Id("n"), Call(Id("sum"), <<Bin("-", Id("n"), Num(1))>>))) >>),
                   SPrint(Call(Id("sum"), <<Num(10)>>)), SPrint(Call(Id("k"), <<Num(1)>>)) >>,
          c |-> "calls:many", key |-> "calls:5200-returns"] }

Cases == SetToSeq(ReturnCases \cup RecCases \cup ClosureCases \cup CalleeCases \cup BindCases \cup ValueCases \cup StressCases)
Programs == TLCEval([i \in 1..Len(Cases) |-> LayoutProg(Cases[i].t, 1)])
FamProgOf(i) == Programs[i]
Init == \E i \in 1..Len(Programs) : InitSem(i, <<>>, FALSE)
Next == SemNext
EmitInv == (EmitOn /\ Final) =>
   Emit([fam |-> "calls", cls |-> Cases[pid].c, key |-> Cases[pid].key, pid |-> pid,
         toks |-> Compact(Yield(MinParen(P))), tree |-> P, stdin |-> stdin, repl |-> repl,
         status |-> status, why |-> why, out |-> out, diags |-> diags, natlog |-> natlog, steps |-> steps])
(* ActivationFresh: a call never reuses a scope; ReturnUnwindsToCall: after a call returns the caller's scope is current *)
(* every program of this family terminates within the fuel: a swallowed return shows up as a loop that runs on *)
LoopsEnd == status # "fuel"
CallFramesConsistent == \A i \in 1..Len(kont) : kont[i].f = "call" => kont[i].env < cur \/ kont[i].env \in 1..Len(envs)
=============================================================================
