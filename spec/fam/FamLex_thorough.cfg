CONSTANTS
  MaxFrag = 4
  MaxKwFrag = 2
  EmitOn = TRUE
INIT Init
NEXT Next
INVARIANTS
  ScannerRefinesMaximalMunch OneEOF LinesTrue LinesMonotone Ordered KeywordIff NoSilentDrop StringValueIsInside EmitInv
CHECK_DEADLOCK FALSE
