CONSTANTS
  ProgOf <- FamProgOf
  MaxSteps = 600
  MaxArgs = 4
  NRandom = 20000
  EmitOn = TRUE
INIT Init
NEXT Next
INVARIANTS TerminalIsClassified ErrorHasCause DoneIsClean ScopesWellFormed HeapWellFormed EmitInv
PROPERTIES NoEffectAfterError Monotone StoreLocal OutputAppendOnly
