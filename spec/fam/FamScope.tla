------------------------------ MODULE FamScope ------------------------------
(* Program family for C03: histories of declare / declare-without-initialiser / assign / read over two deliberately
   colliding names, nested blocks, one-iteration for and while loops (the for header declares a colliding name),
   a function declaration whose body is such a history, and calls of it.  Every declaration and assignment site
   stores a distinct value (its own source line), every read is a print: stdout is the sequence of resolved values.
   Programs that declare a name in a scope after a closure mentioning that name was created in the same scope are
   outside the domain and filtered out (InDomain). *)
EXTENDS BornoSem, SequencesExt
CONSTANTS Budget, MaxDepth, NRandom, EmitOn

V == Lit(S("?"))      \* placeholder: replaced by the line number of its statement
Names2 == {"a", "b"}
Simple == { SVar(n, V) : n \in Names2 } \cup { SVar(n, None) : n \in Names2 }
          \cup { SExpr(Asg(n, V)) : n \in Names2 } \cup { SPrint(Id(n)) : n \in Names2 }
          \cup { SVar(n, Bin("+", Id(m), V)) : n \in Names2, m \in Names2 }
          \cup { SVarList(<<SVar("a", V), SVar("b", V)>>), SVarList(<<SVar("b", V), SVar("a", None)>>),
                 SVarList(<<SVar("a", V), SVar("b", Bin("+", Id("a"), V))>>) }     \* a later initialiser of a list sees the earlier names of the list   \* comma lists declare too     \* the initialiser is evaluated before the name is bound
CallF == SExpr(Call(Id("f"), <<>>))
Once(body) == SBlock(<< SVar("q", Lit(N(0))),
                        SWhile(Bin("<", Id("q"), Lit(N(1))), SBlock(<<SExpr(Asg("q", Bin("+", Id("q"), Lit(N(1)))))>> \o body)) >>)
ForOnce(n, body) == SFor(SVarList(<<SVar(n, V), SVar("q", Lit(N(0)))>>), Bin("<", Id("q"), Lit(N(1))),
                         Asg("q", Bin("+", Id("q"), Lit(N(1)))), SBlock(body))

(* every sequence of items of total size exactly n (a simple item has size 1, a compound 1 + its body), nesting <= d;
   built as SEQUENCES of statement sequences (TLC's union of large sets of large records is quadratic) *)
Cross(A, B, F(_, _)) == FlattenSeq([i \in 1..Len(A) |-> [j \in 1..Len(B) |-> F(A[i], B[j])]])
Map(A, F(_)) == [i \in 1..Len(A) |-> F(A[i])]
SimpleS == SetToSeq(Simple)
RECURSIVE SeqN(_, _, _)
ItemN(s, d, inFun) ==
   IF s = 1 THEN SimpleS \o (IF inFun THEN <<>> ELSE <<CallF>>)
   ELSE IF d = 0 THEN <<>>
   ELSE LET inner == SeqN(s - 1, d - 1, inFun) IN
        Map(inner, LAMBDA x : SBlock(x))
        \o Cross(<<"a", "b">>, inner, LAMBDA nm, x : ForOnce(nm, x))
        \o Map(inner, LAMBDA x : Once(x))
        \o (IF inFun THEN <<>> ELSE Map(SeqN(s - 1, d - 1, TRUE), LAMBDA x : SFun("f", <<>>, x)))
SeqN(n, d, inFun) ==
   IF n = 0 THEN << <<>> >>
   ELSE FlattenSeq([s \in 1..n |-> Cross(ItemN(s, d, inFun), SeqN(n - s, d, inFun), LAMBDA it, r : <<it>> \o r)])

RECURSIVE NamesIn(_)
NamesIn(t) == IF t.k = "none" THEN {}
              ELSE (IF t.k \in {"id", "asg", "var"} THEN {t.name} ELSE {})
                   \cup UNION { NamesIn(t.c[i]) : i \in 1..Len(t.c) }
RECURSIVE InDomainSeq(_, _)
RECURSIVE InDomain(_)
InDomainSeq(ss, frozen) ==
   IF ss = <<>> THEN TRUE
   ELSE LET s == Head(ss) IN
        /\ ~(s.k = "var" /\ s.name \in frozen) /\ ~(s.k = "varlist" /\ frozen # {})
        /\ InDomain(s)
        /\ InDomainSeq(Tail(ss), IF s.k = "fun" THEN frozen \cup NamesIn(s) ELSE frozen)
InDomain(t) == CASE t.k \in {"block", "fun", "prog"} -> InDomainSeq(t.c, {})
                 [] t.k \in {"while", "for", "if"} -> \A i \in 1..Len(t.c) : InDomain(t.c[i])
                 [] OTHER -> TRUE

RECURSIVE TagV(_, _)
TagV(t, l) == IF t.k = "none" THEN t
              ELSE IF t = V THEN Lit(N(l))
              ELSE IF t.c = <<>> THEN t
              ELSE LET l2 == IF IsStmt(t) /\ t.ln > 0 THEN t.ln ELSE l IN [t EXCEPT !.c = [i \in 1..Len(t.c) |-> TagV(t.c[i], l2)]]

(* seeded random larger histories (no big sets: decoded from pseudo-random integers) *)
SimpleSeq == SetToSeq(Simple)
RECURSIVE RSeq(_, _, _, _, _)
RItem(s, i, d, inFun) ==
   LET r == RandInt(s, i, 20) IN
   IF d = 0 \/ r < 11 THEN (IF r = 10 /\ ~inFun THEN CallF ELSE SimpleSeq[1 + RandInt(s, i + 1, Len(SimpleSeq))])
   ELSE LET body == RSeq(s, i * 31 + 7, 1 + RandInt(s, i + 2, 3), d - 1, inFun) IN
        IF r < 14 THEN SBlock(body)
        ELSE IF r < 16 THEN ForOnce(IF RandInt(s, i + 3, 2) = 0 THEN "a" ELSE "b", body)
        ELSE IF r < 18 \/ inFun THEN Once(body)
        ELSE SFun("f", <<>>, RSeq(s, i * 31 + 7, 1 + RandInt(s, i + 2, 3), d - 1, TRUE))
RSeq(s, i, n, d, inFun) == IF n = 0 THEN <<>> ELSE <<RItem(s, i, d, inFun)>> \o RSeq(s, i + 1009, n - 1, d, inFun)
Randoms == SelectSeq([k \in 1..NRandom |-> RSeq(SeedProp * 8192 + k, 1, 4 + RandInt(SeedProp, k, 4), 3, FALSE)], LAMBDA x : InDomainSeq(x, {}))

(* lifetime: a scope entered again is a NEW scope - what was declared in an earlier entry (variables, and functions
   closing over them) is not what the later entry sees *)
NumL(i) == Lit(N(i))
Plus(a, b) == Bin("+", a, b)
Loop3(body) == SFor(SVar("i", NumL(0)), Bin("<", Id("i"), NumL(3)), Asg("i", Plus(Id("i"), NumL(1))), SBlock(body))
Fixed == <<
  << Loop3(<< SVar("x", Bin("*", Id("i"), NumL(10))), SFun("g", <<>>, <<SReturn(Id("x"))>>), SPrint(Call(Id("g"), <<>>)) >>) >>,
  << SFun("outer", <<"n">>, << SVar("m", Plus(Id("n"), NumL(100))), SFun("h", <<>>, <<SReturn(Id("m"))>>), SReturn(Call(Id("h"), <<>>)) >>),
     SPrint(Call(Id("outer"), <<NumL(1)>>)), SPrint(Call(Id("outer"), <<NumL(2)>>)) >>,
  << SVar("keep", Lit(VNil)),
     Loop3(<< SVar("x", Id("i")), SFun("g", <<>>, <<SExpr(Asg("x", Plus(Id("x"), NumL(1)))), SReturn(Id("x"))>>),
              SIf(Bin("==", Id("i"), NumL(0)), SExpr(Asg("keep", Id("g"))), None), SPrint(Call(Id("g"), <<>>)), SPrint(Call(Id("keep"), <<>>)) >>) >>,
  << SVar("i", NumL(0)), SWhile(Bin("<", Id("i"), NumL(3)), SBlock(<< SVar("a", None), SPrint(Id("a")), SExpr(Asg("a", Id("i"))), SPrint(Id("a")), SExpr(Asg("i", Plus(Id("i"), NumL(1)))) >>)) >>,
  << SFun("p", <<"a">>, << SBlock(<< SVar("b", Plus(Id("a"), NumL(1))), SBlock(<< SVar("a", Plus(Id("b"), NumL(1))), SPrint(Id("a")) >>), SPrint(Id("a")), SPrint(Id("b")) >>), SPrint(Id("a")) >>),
     SExpr(Call(Id("p"), <<NumL(1)>>)), SExpr(Call(Id("p"), <<NumL(5)>>)) >>,
  << SFun("r", <<"n">>, << SVar("loc", Id("n")), SIf(Bin(">", Id("n"), NumL(0)), SBlock(<< SVar("loc2", Bin("*", Id("n"), NumL(2))), SExpr(Call(Id("r"), <<Bin("-", Id("n"), NumL(1))>>)), SPrint(Id("loc2")) >>), None), SPrint(Id("loc")) >>),
     SExpr(Call(Id("r"), <<NumL(2)>>)) >>,
  << SVar("fs", Arr(<<NumL(0), NumL(0)>>)),
     SFor(SVar("i", NumL(0)), Bin("<", Id("i"), NumL(2)), Asg("i", Plus(Id("i"), NumL(1))),
          SBlock(<< SVar("c", Bin("*", Id("i"), NumL(100))), SFun("bump", <<>>, <<SExpr(Asg("c", Plus(Id("c"), NumL(1)))), SReturn(Id("c"))>>), SExpr(IAsg(Id("fs"), Id("i"), Id("bump"))) >>)),
     SPrint(Call(Idx(Id("fs"), NumL(0)), <<>>)), SPrint(Call(Idx(Id("fs"), NumL(1)), <<>>)), SPrint(Call(Idx(Id("fs"), NumL(0)), <<>>)), SPrint(Call(Idx(Id("fs"), NumL(1)), <<>>)) >>,
  << SFun("f", <<"n">>, << SIf(Bin("==", Id("n"), NumL(0)), SBlock(<< SExpr(Asg("f", NumL(7))), SPrint(Id("f")), SReturn(NumL(0)) >>), None),
                          SVar("r", Call(Id("f"), <<Bin("-", Id("n"), NumL(1))>>)), SPrint(Bin("==", Id("f"), NumL(7))), SReturn(Plus(Id("r"), NumL(1))) >>),
     SPrint(Call(Id("f"), <<NumL(2)>>)), SPrint(Call(Id("f"), <<NumL(1)>>)) >>,
  \* the activation is ONE scope: parameters, the function's own name and the body's top-level declarations share it
  << SFun("fp", <<"p">>, << SPrint(Id("p")), SVar("p", Plus(Id("p"), NumL(1))), SPrint(Id("p")) >>), SExpr(Call(Id("fp"), <<NumL(1)>>)), SPrint(NumL(99)) >>,
  << SFun("fo", <<>>, << SVar("fo", NumL(1)), SPrint(Id("fo")) >>), SExpr(Call(Id("fo"), <<>>)), SPrint(NumL(99)) >>,
  << SFun("fq", <<"p", "q">>, << SBlock(<< SVar("p", NumL(5)), SPrint(Id("p")) >>), SVar("r", Id("p")), SPrint(Id("r")), SVar("q", NumL(7)) >>), SExpr(Call(Id("fq"), <<NumL(1), NumL(2)>>)), SPrint(NumL(99)) >>,
  << SVar("a", NumL(10)), SBlock(<< SVarList(<<SVar("a", NumL(1)), SVar("b", Plus(Id("a"), NumL(1)))>>), SPrint(Id("b")) >>),
     SFun("fl", <<"n">>, << SVarList(<<SVar("k", Bin("*", Id("n"), NumL(2))), SVar("m", Plus(Id("k"), Id("n")))>>), SReturn(Id("m")) >>), SPrint(Call(Id("fl"), <<NumL(3)>>)),
     SFor(SVarList(<<SVar("x", NumL(5)), SVar("y", Bin("*", Id("x"), Id("x")))>>), Bin("<", Id("x"), NumL(6)), Asg("x", Plus(Id("x"), NumL(1))), SBlock(<<SPrint(Id("y"))>>)) >>,
  << SBlock(<< SVar("a", NumL(1)), SFun("ga", <<>>, <<SReturn(Id("a"))>>), SBlock(<< SVar("a", NumL(2)), SPrint(Call(Id("ga"), <<>>)), SPrint(Id("a")) >>), SPrint(Call(Id("ga"), <<>>)) >>),
     SBlock(<< SVar("a", NumL(3)), SFun("ga", <<>>, <<SReturn(Id("a"))>>), SPrint(Call(Id("ga"), <<>>)) >>) >>,
  \* round 7: a function declared in an inner block (one without any variable declaration) SHADOWS a function of the same
  \* name further out - the enclosing function's own name included - and is gone when the block ends
  << SFun("h", <<>>, <<SReturn(NumL(1))>>),
     SFun("outer", <<"n">>, << SIf(Bin(">", Id("n"), NumL(0)), SBlock(<< SFun("h", <<>>, <<SReturn(NumL(2))>>), SPrint(Call(Id("h"), <<>>)) >>), None),
                               SPrint(Call(Id("h"), <<>>)), SReturn(NumL(0)) >>),
     SExpr(Call(Id("outer"), <<NumL(1)>>)), SPrint(Call(Id("h"), <<>>)),
     SBlock(<< SFun("h", <<>>, <<SReturn(NumL(3))>>), SPrint(Call(Id("h"), <<>>)) >>), SPrint(Call(Id("h"), <<>>)),
     SFun("rec", <<"n">>, << SIf(Bin("==", Id("n"), NumL(2)), SBlock(<< SFun("rec", <<"k">>, <<SReturn(NumL(50))>>), SPrint(Call(Id("rec"), <<NumL(9)>>)) >>), None),
                             SIf(Bin("<", Id("n"), NumL(1)), SBlock(<<SReturn(NumL(0))>>), None),
                             SReturn(Plus(NumL(1), Call(Id("rec"), <<Bin("-", Id("n"), NumL(1))>>))) >>),
     SPrint(Call(Id("rec"), <<NumL(4)>>)) >>
>>
All == SelectSeq(SeqN(Budget, MaxDepth, FALSE), LAMBDA x : InDomainSeq(x, {})) \o Randoms \o Fixed
Cases == All
Programs == TLCEval([i \in 1..Len(Cases) |-> TagV(LayoutProg(Cases[i], 1), 0)])
FamProgOf(i) == Programs[i]
Init == \E i \in 1..Len(Programs) : InitSem(i, <<>>, FALSE)
Next == SemNext

RECURSIVE Shape(_)
ShapeSeq(ss) == IF ss = <<>> THEN "" ELSE Shape(ss[1]) \o (IF Len(ss) > 1 THEN "," ELSE "") \o (IF Len(ss) > 1 THEN Shape(SBlock(Tail(ss))) ELSE "")
Shape(t) == CASE t.k = "var" -> (IF IsNone(t.c[1]) THEN "U" ELSE IF t.c[1].k = "bin" THEN "I" ELSE "D") \o t.name
              [] t.k = "expr" -> (IF t.c[1].k = "asg" THEN "A" \o t.c[1].name ELSE "C")
              [] t.k = "print" -> "R" \o t.c[1].name
              [] t.k = "fun" -> "fun"
              [] t.k = "for" -> "for"
              [] t.k = "block" -> "{}"
              [] OTHER -> t.k
NFixed0 == Len(All) - Len(Fixed)
Cls(i) == LET ss == Cases[i] IN IF i > NFixed0 THEN "lifetime" \o IntStr(i - NFixed0) ELSE IF ss = <<>> THEN "empty" ELSE Shape(ss[1]) \o ";" \o (IF Len(ss) > 1 THEN Shape(ss[2]) ELSE "") \o ";.."

EmitInv == (EmitOn /\ Final) =>
   Emit([fam |-> "scope", cls |-> Cls(pid), key |-> "scope#" \o IntStr(pid), pid |-> pid,
         toks |-> Compact(Yield(MinParen(P))), tree |-> P, stdin |-> stdin, repl |-> repl,
         status |-> status, why |-> why, out |-> out, diags |-> diags, natlog |-> natlog, steps |-> steps])
OnlyScopeErrors == status = "error" => diags[1].kind \in {"undef", "redeclare", "operand"}
(* a block, loop or call that has finished leaves the current scope as it found it *)
ScopeRestored == (ctl.m = "done" /\ kont # <<>> /\ Head(kont).f = "seq" /\ Head(kont).p = <<>>) => cur = 2
=============================================================================
