------------------------------ MODULE FamTrees ------------------------------
(* Family driver for C01 (b, c): every expression tree of depth 2 over ALL binary, logical, assignment, prefix and
   postfix operators (every ordered pair, both nestings), every depth-3 tree over one representative per ladder level
   (every triple, all five shapes), and every nesting of if / if-else / while / for / block statements (dangling else
   in every position) together with declaration lists.  For every tree T TLC checks on the specification:
     Canon(MinParen(T)),  Strip(MinParen(T)) = T,  Strip(FullParen(T)) = T,
     Parse(Yield(MinParen(T))) = MinParen(T)  and  Parse(Yield(FullParen(T))) = FullParen(T)
   (the grammar with the ladder is unambiguous and the recogniser builds the canonical tree), and emits the tree with
   both renderings; the harness parses both texts with the real parser and compares the trees exactly. *)
EXTENDS BornoGrammar, SequencesExt
CONSTANTS Deep, EmitOn

A == Id("a")  B == Id("b")  C == Id("c")  D == Id("d")
L1 == Lit([t |-> "num", n |-> "1e0"])  L2 == Lit([t |-> "num", n |-> "2e0"])
BinAll == << "|", "^", "&", "==", "!=", "<", "<=", ">", ">=", "<<", ">>", "+", "-", "*", "/", "%", "**" >>
(* a binary-like node constructor per operator name; "or"/"and"/"||"/"&&"/"=" included *)
Mk(op, l, r) == CASE op = "or" -> Log("or", l, r) [] op = "and" -> Log("and", l, r) [] op = "||" -> LogS("or", l, r) [] op = "&&" -> LogS("and", l, r)
                  [] op = "=" -> (IF l.k = "id" THEN Asg(l.name, r) ELSE IF l.k = "idx" THEN IAsg(l.c[1], l.c[2], r) ELSE IF l.k = "prop" THEN PAsg(l.c[1], l.name, r) ELSE Bin("==", l, r))
                  [] OTHER -> Bin(op, l, r)
Ops2 == BinAll \o << "or", "and", "||", "&&" >>
Cross(S, T(_), F(_, _)) == FlattenSeq([i \in 1..Len(S) |-> LET bs == T(S[i]) IN [j \in 1..Len(bs) |-> F(S[i], bs[j])]])

(* depth 2: every ordered pair of binary-like operators, both nestings; unary and postfix combinations *)
Pairs == Cross(Ops2, LAMBDA o : Ops2, LAMBDA o1, o2 : <<o1, o2>>)
PairTrees == FlattenSeq([i \in 1..Len(Pairs) |-> LET o1 == Pairs[i][1]  o2 == Pairs[i][2] IN
               << Mk(o1, Mk(o2, A, B), C), Mk(o1, A, Mk(o2, B, C)) >>])
UnTrees == FlattenSeq([i \in 1..Len(Ops2) |-> LET o == Ops2[i] IN
               FlattenSeq([u \in 1..3 |-> LET un == <<"!", "-", "~">>[u] IN
                  << Un(un, Mk(o, A, B)), Mk(o, Un(un, A), B), Mk(o, A, Un(un, B)), Un(un, Un(un, A)) >>])])
PostTrees == FlattenSeq([i \in 1..Len(Ops2) |-> LET o == Ops2[i] IN
               << Call(Mk(o, A, B), <<C>>), Idx(Mk(o, A, B), C), Prop(Mk(o, A, B), "k"), Mk(o, Call(A, <<B>>), C), Mk(o, A, Idx(B, C)), Mk(o, Prop(A, "k"), B),
                  Call(A, <<Mk(o, B, C), D>>), Idx(A, Mk(o, B, C)), Arr(<<Mk(o, A, B), C>>), Obj(<<"k", "m">>, <<Mk(o, A, B), C>>), Grp(Mk(o, A, B)),
                  Un("-", Call(Mk(o, A, B), <<>>)), Asg("a", Mk(o, B, C)), IAsg(A, Mk(o, B, C), D), PAsg(A, "k", Mk(o, B, C)), Mk(o, Asg("a", B), C), Mk(o, A, Asg("b", C)) >>])
ChainTrees == << Call(Call(A, <<>>), <<B>>), Idx(Idx(A, B), C), Prop(Prop(A, "k"), "m"), Call(Idx(Prop(A, "k"), B), <<C>>), Prop(Call(Idx(A, B), <<>>), "k"), Idx(Call(Prop(A, "k"), <<B>>), C),
                 Asg("a", Asg("b", C)), IAsg(A, B, PAsg(C, "k", Asg("d", L1))), PAsg(Prop(A, "k"), "m", B), IAsg(Idx(A, B), C, D), Un("-", Un("!", Un("~", A))),
                 Un("-", Bin("**", A, B)), Bin("**", Un("-", A), B), Bin("**", A, Un("-", B)), Bin("**", Bin("**", A, B), C), Bin("**", A, Bin("**", B, C)),
                 Bin("-", Bin("-", A, B), C), Bin("-", A, Bin("-", B, C)),
                 Bin("+", Bin("+", A, L1), L2), Bin("-", Bin("+", A, L1), L2), Bin("+", Bin("-", A, L1), L2), Bin("-", Bin("-", A, L1), L2), Bin("+", Bin("+", L1, L2), A), Bin("*", Bin("*", A, L1), L2), Bin("/", Bin("/", A, B), C), Bin("/", A, Bin("/", B, C)),
                 Call(Un("-", A), <<>>), Idx(Un("!", A), B), Prop(Un("~", A), "k"), Call(Arr(<<A>>), <<>>), Idx(Arr(<<A, B>>), L1), Prop(Obj(<<"k">>, <<A>>), "k"),
                 Call(Grp(Asg("a", B)), <<>>), Arr(<<>>), Obj(<<>>, <<>>), Call(A, <<>>), Arr(<<Arr(<<Arr(<<>>)>>)>>), Obj(<<"a">>, <<Obj(<<"b">>, <<Obj(<<>>, <<>>)>>)>>) >>

(* depth 3 over one representative per level *)
Reps == << "=", "or", "and", "|", "^", "&", "==", "<", "<<", "+", "*", "**" >>
QReps == << "or", "&", "==", "<", "<<", "+", "*", "**" >>      \* the quick tier: triples over 8 of the 12 levels
TReps == IF Deep THEN Reps ELSE QReps
Triples == Cross(Cross(TReps, LAMBDA o : TReps, LAMBDA o1, o2 : <<o1, o2>>), LAMBDA p : TReps, LAMBDA p, o3 : <<p[1], p[2], o3>>)
TripleTrees == FlattenSeq([i \in 1..Len(Triples) |-> LET o1 == Triples[i][1]  o2 == Triples[i][2]  o3 == Triples[i][3] IN
   << Mk(o1, Mk(o2, Mk(o3, A, B), C), D), Mk(o1, Mk(o2, A, Mk(o3, B, C)), D), Mk(o1, Mk(o2, A, B), Mk(o3, C, D)),
      Mk(o1, A, Mk(o2, Mk(o3, B, C), D)), Mk(o1, A, Mk(o2, B, Mk(o3, C, D))) >>])

ExprTrees == PairTrees \o UnTrees \o PostTrees \o ChainTrees \o TripleTrees
ExprProgs == [i \in 1..Len(ExprTrees) |-> Prog(<<IF ExprTrees[i].k \in {"obj"} THEN SPrint(ExprTrees[i]) ELSE SExpr(ExprTrees[i])>>)]

(* statements: every nesting of if / if-else / while / for / block to depth 3; leaves are simple statements *)
Leaf == SExpr(A)
RECURSIVE Stmts(_)
Stmts(d) == IF d = 0 THEN << Leaf, SBreak, SReturn(None), SPrint(L1) >>
            ELSE LET sub == Stmts(d - 1) IN
                 << Leaf >> \o FlattenSeq([i \in 1..Len(sub) |-> LET s == sub[i] IN
                    << SIf(A, s, None), SIf(A, s, Leaf), SIf(A, Leaf, s), SIf(A, s, s), SWhile(A, s), SFor(None, None, None, s), SFor(SExpr(A), B, C, s), SBlock(<<s>>), SBlock(<<s, Leaf>>) >>])
DeclProgs == << Prog(<<SVar("a", None)>>), Prog(<<SVar("a", L1)>>), Prog(<<SVarList(<<SVar("a", L1), SVar("b", None)>>)>>), Prog(<<SVarList(<<SVar("a", None), SVar("b", L2), SVar("c", None)>>)>>),
                Prog(<<SVarList(<<SVar("a", L1), SVar("b", L2)>>), SVarList(<<SVar("c", None), SVar("d", None)>>)>>),
                Prog(<<SFor(SVarList(<<SVar("a", L1), SVar("b", None)>>), A, Asg("a", B), SBlock(<<>>))>>), Prog(<<SFor(SVar("a", None), None, None, Leaf)>>),
                Prog(<<SFun("f", <<>>, <<>>)>>), Prog(<<SFun("f", <<"a", "b", "len">>, <<SVar("c", A), SReturn(Bin("+", A, B))>>)>>), Prog(<<SFun("f", <<"a">>, <<SFun("g", <<>>, <<SReturn(A)>>), SReturn(Id("g"))>>)>>),
                Prog(<<SExpr(Call(A, <<B>>)), SExpr(Call(A, <<B, Call(C, <<D, A>>)>>)), SExpr(Call(A, <<L1, Call(B, <<L2>>), Call(C, <<D, Call(A, <<L1, L2>>)>>)>>))>>),
                Prog(<<SExpr(Arr(<<A, B>>)), SExpr(Arr(<<A, Arr(<<B, C>>), Arr(<<D>>)>>)), SExpr(Obj(<<"a", "b">>, <<Obj(<<"c">>, <<A>>), Obj(<<"d", "e">>, <<B, C>>)>>))>>),
                Prog(<<SExpr(Un("-", Un("-", A))), SExpr(Un("~", Un("~", A))), SExpr(Un("!", Un("!", A))), SExpr(Bin("-", A, Un("-", Un("-", B))))>>),
                Prog(<<SReturn(L1)>>), Prog(<<SBlock(<<>>), SBlock(<<SBlock(<<>>)>>)>>), Prog(<<SPrint(Obj(<<"a", "b", "a">>, <<L1, L2, A>>))>>), Prog(<<SExpr(Grp(Obj(<<"a">>, <<L1>>)))>>),
                Prog(<<SVar("o", Obj(<<"k", "m">>, <<Arr(<<L1, L2>>), Obj(<<>>, <<>>)>>))>>), Prog(<<SExpr(Call(Id("len"), <<A>>)), SExpr(Asg("len", L1)), SExpr(Prop(A, "len"))>>) >>
StmtProgs == LET ss == SelectSeq(Stmts(IF Deep THEN 3 ELSE 2), Canon) IN [i \in 1..Len(ss) |-> Prog(<<ss[i]>>)] \o DeclProgs   \* only trees the grammar can produce: else belongs to the nearest if

All == ExprProgs \o StmtProgs
VARIABLE idx
Init == idx \in 1..Len(All)
Next == UNCHANGED idx
T == All[idx]
Plain(ts) == SelectSeq(ts, LAMBDA k : k.t # "ln")
Theorems == LET m == MinParen(T)  f == FullParen(T) IN
            /\ Canon(m) /\ Strip(m) = Strip(T) /\ Strip(f) = Strip(T)
            /\ LET pm == Parse(Plain(Yield(m)))  pf == Parse(Plain(Yield(f))) IN
               /\ pm.ok /\ pm.t = m
               /\ pf.ok /\ pf.t = f
EmitInv == EmitOn => Emit([fam |-> "tree", id |-> idx, min |-> Compact(Plain(Yield(MinParen(T)))), full |-> Compact(Plain(Yield(FullParen(T)))),
                           mintree |-> MinParen(T), fulltree |-> FullParen(T), isexpr |-> idx <= Len(ExprProgs)])
=============================================================================
