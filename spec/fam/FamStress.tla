------------------------------ MODULE FamStress ------------------------------
(* Long runs: thousands of calls that end through `return` (and others that fall off the end), recursion a thousand
   deep, thousands of loop iterations with break / continue.  What a finished call, iteration or block leaves behind
   must not add up.  Checked with the state invariants only: the action properties of the other families cost TLC a
   factor of six on single long behaviours, and nothing new would be learned from them here. *)
EXTENDS BornoSem, SequencesExt
CONSTANTS Calls, Depth, EmitOn

Num(i) == Lit(N(i))
Plus(a, b) == Bin("+", a, b)
Cases == <<
  [key |-> "returns",
   t |-> << SFun("k", <<"x">>, <<SReturn(Plus(Id("x"), Num(1)))>>), SFun("nop", <<"x">>, <<SExpr(Id("x"))>>), SVar("i", Num(0)), SVar("s", Num(0)),
            SWhile(Bin("<", Id("i"), Num(Calls)), SBlock(<< SExpr(Asg("s", Call(Id("k"), <<Id("s")>>))), SExpr(Call(Id("nop"), <<Id("i")>>)), SExpr(Asg("i", Call(Id("k"), <<Id("i")>>))) >>)),
            SPrint(Id("s")),
            SFun("sum", <<"n">>, << SIf(Bin("==", Id("n"), Num(0)), SReturn(Num(0)), None), SReturn(Plus(Id("n"), Call(Id("sum"), <<Bin("-", Id("n"), Num(1))>>))) >>),
            SPrint(Call(Id("sum"), <<Num(10)>>)), SPrint(Call(Id("k"), <<Num(1)>>)) >>],
  [key |-> "recursion",
   t |-> << SFun("sum", <<"n">>, << SIf(Bin("==", Id("n"), Num(0)), SReturn(Num(0)), None), SVar("r", Call(Id("sum"), <<Bin("-", Id("n"), Num(1))>>)), SReturn(Plus(Id("n"), Id("r"))) >>),
            SPrint(Call(Id("sum"), <<Num(Depth)>>)), SPrint(Call(Id("sum"), <<Num(3)>>)) >>],
  [key |-> "iterations",
   t |-> << SVar("n", Num(0)), SVar("odd", Num(0)),
            SFor(SVar("i", Num(0)), Lit(VBool(TRUE)), Asg("i", Plus(Id("i"), Num(1))),
                 SBlock(<< SVar("t", Bin("%", Id("i"), Num(2))), SIf(Bin("==", Id("t"), Num(1)), SBlock(<<SExpr(Asg("odd", Plus(Id("odd"), Num(1)))), SContinue>>), None),
                           SIf(Bin(">=", Id("i"), Num(Calls)), SBreak, None), SExpr(Asg("n", Plus(Id("n"), Num(1)))) >>)),
            SPrint(Arr(<<Id("n"), Id("odd")>>)) >>] >>
Programs == TLCEval([i \in 1..Len(Cases) |-> LayoutProg(Cases[i].t, 1)])
FamProgOf(i) == Programs[i]
Init == \E i \in 1..Len(Programs) : InitSem(i, <<>>, FALSE)
Next == SemNext
EmitInv == (EmitOn /\ Final) =>
   Emit([fam |-> "stress", cls |-> Cases[pid].key, key |-> "stress:" \o Cases[pid].key, pid |-> pid,
         toks |-> Compact(Yield(MinParen(P))), tree |-> P, stdin |-> stdin, repl |-> repl,
         status |-> status, why |-> why, out |-> out, diags |-> diags, natlog |-> natlog, steps |-> steps])
AllEndNormally == Final => status = "done"
=============================================================================
