CONSTANTS
  ProgOf <- FamProgOf
  MaxSteps = 3000
  EmitOn = TRUE
INIT Init
NEXT Next
INVARIANTS TerminalIsClassified ErrorHasCause DoneIsClean ScopesWellFormed HeapWellFormed OneLinePerCall EmitInv
PROPERTIES NoEffectAfterError Monotone StoreLocal OutputAppendOnly
