CONSTANTS MaxLines = 4
INIT Init
NEXT Next
INVARIANTS TypeOK ExitClassifies NothingRunsOnStaticError UsageOnlyOnMisuse ReplEofExit0 ReplLineIndependence FlagsClearAtPrompt IndInv
