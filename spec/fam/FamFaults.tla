------------------------------ MODULE FamFaults ------------------------------
(* Program family for C06: one runtime fault of each kind planted at every syntactic position of a multi-line
   program that prints before the fault and, after it, tries to print, to prompt/read input and to read the
   clock - also inside loops that would not end by themselves.  The specification halts at the first fault;
   the replay demands the same first diagnostic (kind + line), no later output, no later built-in, no input
   consumed, termination, and (through the executable) exit status 70. *)
EXTENDS BornoSem, SequencesExt, SanitySets
CONSTANTS Pads, EmitOn

Num(i) == Lit(N(i))
Str(s) == Lit(S(s))
T(s) == SPrint(Str(s))
InputE == Call(Id("input"), <<Str("P>")>>)
After == << T("after"), SExpr(InputE), SExpr(Call(Id("clock"), <<>>)), T("after2") >>
Prelude == << SVar("arr", Arr(<<Num(1), Num(2)>>)), SVar("obj", Obj(<<"k">>, <<Num(1)>>)),
              SFun("g0", <<>>, <<SReturn(Num(0))>>), SFun("id", <<"x">>, <<SReturn(Id("x"))>>),
              SFun("two", <<"a", "b">>, <<T("called"), SReturn(Id("a"))>>), SVar("d", Num(1)), T("start") >>

Faults == {
  <<"undef", Id("zz")>>, <<"undef-assign", Asg("zz", Num(1))>>, <<"operand", Bin("-", Num(1), Lit(VNil))>>,
  <<"operand-unary", Un("-", Str("x"))>>, <<"operand-bitwise", Bin("&", Lit(D("1.5")), Num(1))>>,
  <<"zero", Bin("/", Num(1), Num(0))>>, <<"zero-numeric-string", Bin("/", Num(1), Str("0"))>>, <<"zero-mod-bangla-string", Bin("%", Num(7), Lit(VStr(<<2534>>)))>>, <<"zero-mod", Bin("%", Num(1), Num(0))>>, <<"shift", Bin("<<", Num(1), Un("-", Num(1)))>>,
  <<"index-read", Idx(Id("arr"), Num(5))>>, <<"index-write", IAsg(Id("arr"), Num(2), Num(1))>>,
  <<"index-neg", Idx(Id("arr"), Un("-", Num(1)))>>, <<"index-frac", Idx(Id("arr"), Lit(D("0.5")))>>, <<"index-nonarray", Idx(Num(5), Num(0))>>,
  <<"prop-missing", Prop(Id("obj"), "nope")>>, <<"prop-nonobj", Prop(Num(5), "k")>>, <<"prop-store-nonobj", PAsg(Id("arr"), "k", Num(1))>>,
  <<"callee", Call(Num(5), <<>>)>>, <<"arity", Call(Id("g0"), <<Num(1)>>)>>, <<"native", Call(Id("len"), <<Num(5)>>)>>,
  <<"native-arity", Call(Id("len"), <<>>)>>, <<"native-delkey", Call(Id("delkey"), <<Id("obj"), Str("nope")>>)>>,
  <<"native-remove", Call(Id("remove"), <<Id("arr"), Num(9)>>)>>, <<"native-min", Call(Id("min"), <<>>)>> }

Inc(x) == SExpr(Asg(x, Bin("+", Id(x), Num(1))))
(* positions: each maps a fault expression e to the statements of the program after the prelude *)
Positions(e) == {
  <<"top", <<SExpr(e)>> \o After>>,
  <<"print", <<SPrint(e)>> \o After>>,
  <<"var-init", <<SVar("nv", e)>> \o After>>,
  <<"block", <<SBlock(<<T("b"), SExpr(e)>> \o After)>> \o After>>,
  <<"if-arm", <<SIf(Num(1), SBlock(<<SExpr(e)>> \o After), None)>> \o After>>,
  <<"else-arm", <<SIf(Num(0), T("then"), SBlock(<<SExpr(e)>> \o After))>> \o After>>,
  <<"if-cond", <<SIf(e, SBlock(After), SBlock(After))>> \o After>>,
  <<"while-cond", <<SWhile(e, SBlock(After))>> \o After>>,
  <<"while-body", <<SVar("i", Num(0)), SWhile(Bin("<", Id("i"), Num(3)), SBlock(<<Inc("i"), SPrint(Id("i")), SExpr(e)>> \o After))>> \o After>>,
  <<"while-true", <<SWhile(Lit(VBool(TRUE)), SBlock(<<T("w"), SExpr(e)>> \o After))>> \o After>>,
  <<"while-flag", <<SVar("go", Lit(VBool(TRUE))), SWhile(Id("go"), SBlock(<<SExpr(e)>> \o After))>> \o After>>,
  <<"while-true-bare", <<SWhile(Lit(VBool(TRUE)), SExpr(e))>> \o After>>,
  <<"for-init", <<SFor(SExpr(e), Lit(VBool(FALSE)), None, SBlock(After))>> \o After>>,
  <<"for-cond", <<SFor(None, e, None, SBlock(After))>> \o After>>,
  <<"for-incr", <<SFor(SVar("i", Num(0)), Bin("<", Id("i"), Num(3)), e, SBlock(<<T("body")>>))>> \o After>>,
  <<"for-body", <<SFor(SVar("i", Num(0)), Bin("<", Id("i"), Num(3)), Asg("i", Bin("+", Id("i"), Num(1))), SBlock(<<SPrint(Id("i")), SExpr(e)>> \o After))>> \o After>>,
  <<"for-ever", <<SFor(None, None, None, SBlock(<<T("f"), SExpr(e)>> \o After))>> \o After>>,
  <<"fun-body", <<SFun("h", <<>>, <<T("in"), SExpr(e)>> \o After \o <<SReturn(Num(1))>>), SPrint(Call(Id("h"), <<>>))>> \o After>>,
  <<"fun-return", <<SFun("h", <<>>, <<SReturn(e)>>), SPrint(Call(Id("h"), <<>>))>> \o After>>,
  <<"fun-nested", <<SFun("h", <<>>, <<SExpr(e), T("h-after"), SReturn(Num(1))>>), SFun("k", <<>>, <<T("k-in"), SVar("r", Call(Id("h"), <<>>)), T("k-after"), SReturn(Id("r"))>>),
                    SPrint(Call(Id("k"), <<>>))>> \o After>>,
  <<"fun-loop", <<SFun("h", <<>>, <<SWhile(Lit(VBool(TRUE)), SBlock(<<SExpr(e), T("l")>>)), SReturn(Num(1))>>), SPrint(Call(Id("h"), <<>>))>> \o After>>,
  <<"arg-first", <<SPrint(Call(Id("two"), <<e, InputE>>))>> \o After>>,
  <<"arg-second", <<SPrint(Call(Id("two"), <<Call(Id("id"), <<Num(1)>>), e>>))>> \o After>>,
  <<"native-arg", <<SPrint(Call(Id("push"), <<Id("arr"), e, InputE>>))>> \o After>>,
  <<"array-elem", <<SVar("na", Arr(<<Num(1), e, InputE>>))>> \o After>>,
  <<"object-value", <<SVar("no", Obj(<<"a", "b", "c">>, <<Num(1), e, InputE>>))>> \o After>>,
  <<"bin-left", <<SPrint(Bin("+", e, InputE))>> \o After>>,
  <<"bin-right", <<SPrint(Bin("+", Num(1), e))>> \o After>>,
  <<"index-expr", <<SPrint(Idx(Id("arr"), e))>> \o After>>,
  <<"store-value", <<SExpr(IAsg(Id("arr"), Num(0), e))>> \o After>>,
  <<"prop-store-value", <<SExpr(PAsg(Id("obj"), "k", e))>> \o After>>,
  <<"logical-right", <<SPrint(Log("or", Num(0), e))>> \o After>>,
  <<"unary-operand", <<SPrint(Un("!", e))>> \o After>>,
  <<"callee-pos", <<SPrint(Call(Grp(e), <<InputE>>))>> \o After>>,
  <<"recursion", <<SFun("r", <<"n">>, <<SExpr(e), SIf(Bin("<", Id("n"), Num(3)), SExpr(Call(Id("r"), <<Bin("+", Id("n"), Num(1))>>)), None), T("r-after")>>),
                   SExpr(Call(Id("r"), <<Num(0)>>))>> \o After>> }

StmtFaults == {
  <<"redeclare", "top", <<SVar("d", Num(2))>> \o After>>,
  <<"redeclare", "block", <<SBlock(<<SVar("e", Num(1)), SVar("e", Num(2))>> \o After)>> \o After>>,
  <<"redeclare", "fun-param", <<SFun("h", <<"p">>, <<SVar("p", Num(2))>> \o After), SExpr(Call(Id("h"), <<Num(1)>>))>> \o After>>,
  <<"redeclare", "for-header", <<SFor(SVar("i", Num(0)), Bin("<", Id("i"), Num(2)), Asg("i", Bin("+", Id("i"), Num(1))), SBlock(<<SVar("x", Num(1)), SVar("x", Num(2))>> \o After))>> \o After>>,
  <<"redeclare", "varlist", <<SVarList(<<SVar("m", Num(1)), SVar("m", Num(2)), SVar("n", InputE)>>)>> \o After>>,
  <<"redeclare", "while-true", <<SWhile(Lit(VBool(TRUE)), SBlock(<<SVar("x", Num(1)), SVar("x", Num(2))>> \o After))>> \o After>>,
  <<"redeclare-nil", "top", <<SVar("u", None), SVar("u", Num(5))>> \o After>>,
  <<"redeclare-nil", "explicit-nil", <<SVar("u", Lit(VNil)), T("declared"), SVar("u", Num(5))>> \o After>>,
  <<"redeclare-nil", "nil-from-call", <<SFun("nothing", <<>>, <<>>), SVar("u", Call(Id("nothing"), <<>>)), SVar("u", None)>> \o After>>,
  <<"redeclare-nil", "param", <<SFun("h", <<"p">>, <<SVar("p", Num(2))>> \o After), SExpr(Call(Id("h"), <<Lit(VNil)>>))>> \o After>>,
  <<"zero", "object-two-faults", <<SVar("no", Obj(<<"a", "b", "c">>, <<Num(1), Bin("/", Num(1), Num(0)), Id("zz")>>))>> \o After>>,
  <<"undef", "object-two-faults-rev", <<SVar("no", Obj(<<"z", "y", "a">>, <<Id("zz"), Bin("/", Num(1), Num(0)), Bin("-", Num(1), Lit(VNil))>>))>> \o After>>,
  <<"operand", "array-two-faults", <<SVar("na", Arr(<<Bin("-", Num(1), Lit(VNil)), Id("zz")>>))>> \o After>>,
  <<"zero", "args-two-faults", <<SPrint(Call(Id("two"), <<Bin("%", Num(1), Num(0)), Id("zz")>>))>> \o After>>,
  <<"stray-break", "top", <<SBreak>> \o After>>, <<"stray-continue", "top", <<SContinue>> \o After>>, <<"stray-return", "top", <<SReturn(Num(1))>> \o After>>,
  <<"stray-break", "block", <<SBlock(<<T("b"), SBreak>> \o After)>> \o After>>,
  <<"stray-continue", "if-arm", <<SIf(Num(1), SBlock(<<SContinue>> \o After), None)>> \o After>>,
  <<"stray-return", "else-arm", <<SIf(Num(0), T("t"), SBlock(<<SReturn(None)>> \o After))>> \o After>>,
  \* names of a declaration list end with their block
  <<"undef", "after-varlist-block", <<SFun("st", <<"a">>, << SIf(Id("a"), SBlock(<< SVarList(<<SVar("lo", Num(3)), SVar("hi", Num(9))>>), SPrint(Bin("-", Id("hi"), Id("lo"))) >>), None), SPrint(Id("hi")) >>), SExpr(Call(Id("st"), <<Num(1)>>))>> \o After>>,
  <<"undef", "after-varlist-bare-block", <<SBlock(<< SVarList(<<SVar("va", Num(1)), SVar("vb", Num(2))>>) >>), SPrint(Id("vb"))>> \o After>>,
  \* a return outside any function, inside loops: the loops pass it on, with its line
  <<"stray-return", "while-body", <<SVar("i", Num(0)), SWhile(Bin("<", Id("i"), Num(5)), SBlock(<<Inc("i"), SPrint(Id("i")), SIf(Bin("==", Id("i"), Num(3)), SReturn(None), None)>>))>> \o After>>,
  <<"stray-return", "for-body", <<SFor(SVar("i", Num(0)), Bin("<", Id("i"), Num(3)), Asg("i", Bin("+", Id("i"), Num(1))), SBlock(<<SPrint(Id("i")), SReturn(Id("i"))>> \o After))>> \o After>>,
  <<"stray-return", "nested-loops", <<SWhile(Lit(VBool(TRUE)), SFor(None, None, None, SBlock(<<T("n"), SIf(Num(1), SBlock(<<SReturn(Num(2))>>), None)>> \o After)))>> \o After>> }

ExprCases == UNION { { [t |-> Prelude \o ps[2], c |-> f[1] \o "@" \o ps[1], key |-> f[1] \o "@" \o ps[1]] : ps \in Positions(f[2]) } : f \in Faults }
StmtCases == { [t |-> Prelude \o sf[3], c |-> sf[1] \o "@" \o sf[2], key |-> sf[1] \o "@" \o sf[2]] : sf \in StmtFaults }
CleanCases == { [t |-> Prelude \o <<SPrint(InputE), SPrint(InputE)>> \o After, c |-> "clean", key |-> "clean"] }
Base == SetToSeq(ExprCases \cup StmtCases \cup CleanCases)
PadSeq == SetToSeq(Pads)
Cases == [i \in 1..(Len(Base) * Len(PadSeq)) |-> [b |-> Base[1 + ((i - 1) % Len(Base))], pad |-> PadSeq[1 + ((i - 1) \div Len(Base))]]]
Programs == TLCEval([i \in 1..Len(Cases) |-> LayoutProg(Cases[i].b.t, 1 + Cases[i].pad)])
FamProgOf(i) == Programs[i]
Lines == << StrCps("  first line  "), StrCps("second"), StrCps("third"), StrCps("fourth"), StrCps("fifth"), StrCps("sixth") >>
Init == \E i \in 1..Len(Programs) : InitSem(i, Lines, FALSE)
Next == SemNext
EmitInv == (EmitOn /\ Final) =>
   Emit([fam |-> "faults", cls |-> Cases[pid].b.c, key |-> Cases[pid].b.key \o "+" \o IntStr(Cases[pid].pad), pid |-> pid,
         toks |-> Compact(Yield(MinParen(P))), tree |-> P, stdin |-> Lines, repl |-> repl,
         status |-> status, why |-> why, out |-> out, diags |-> diags, natlog |-> natlog, steps |-> steps])
EveryFaultIsReported == Final /\ Cases[pid].b.c # "clean" => status \in {"error", "unspec"}
FirstDiagOnly == Len(diags) <= 1
=============================================================================
