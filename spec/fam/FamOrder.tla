------------------------------ MODULE FamOrder ------------------------------
(* Program family for C14: evaluation order, once-only evaluation, short circuit and truthiness.
   Leaves are probes P(tag, v): a user function that prints its tag and returns v, so the printed tag
   sequence is the evaluation order; the value of the whole expression is printed last. *)
EXTENDS BornoSem, SequencesExt
CONSTANTS Deep, EmitOn

PDecl == SFun("P", <<"t", "v">>, <<SPrint(Id("t")), SReturn(Id("v"))>>)
GDecl == SFun("g", <<"a", "b", "c">>, <<SReturn(Bin("+", Bin("*", Id("a"), Lit(N(100))), Bin("+", Bin("*", Id("b"), Lit(N(10))), Id("c"))))>>)
Pr(i, e) == Call(Id("P"), <<Lit(N(i)), e>>)
Num(i) == Lit(N(i))

(* truthiness representatives: a falsy and a truthy value of every kind, as literals and as computed values *)
InfE == Bin("*", Lit(D("1e308")), Lit(N(10)))
TruthPool == {
  <<"nil", Lit(VNil)>>, <<"false", Lit(VBool(FALSE))>>, <<"true", Lit(VBool(TRUE))>>,
  <<"0", Num(0)>>, <<"-0", Un("-", Num(0))>>, <<"0c", Bin("-", Num(1), Num(1))>>, <<"nan", Bin("-", InfE, InfE)>>, <<"1", Num(1)>>, <<"0.5", Lit(D("0.5"))>>,
  <<"and0", Bin("&", Num(2), Num(1))>>, <<"and1", Bin("&", Num(3), Num(1))>>, <<"len0", Call(Id("len"), <<Arr(<<>>)>>)>>, <<"len1", Call(Id("len"), <<Arr(<<Num(7)>>)>>)>>,
  <<"empty", Lit(S(""))>>, <<"emptyc", Bin("+", Lit(S("")), Lit(S("")))>>, <<"s0", Lit(S("0"))>>, <<"sa", Lit(S("a"))>>, <<"sac", Bin("+", Lit(S("")), Lit(S("a")))>>,
  <<"arr0", Arr(<<>>)>>, <<"arr1", Arr(<<Num(0)>>)>>, <<"obj0", Obj(<<>>, <<>>)>>, <<"obj1", Obj(<<"a">>, <<Num(0)>>)>>,
  <<"fn", Id("g")>>, <<"nat", Id("len")>>,
  \* the same values as results of calls: returned literals, a bare return, falling off the end
  <<"ret-empty", Call(Id("retE"), <<>>)>>, <<"ret-0", Call(Id("ret0"), <<>>)>>, <<"ret-false", Call(Id("retF"), <<>>)>>, <<"ret-nil", Call(Id("retN"), <<>>)>>, <<"ret-bare", Call(Id("retB"), <<>>)>>,
  <<"ret-none", Call(Id("retX"), <<>>)>>, <<"ret-a", Call(Id("retA"), <<>>)>>, <<"ret-s0", Call(Id("retS0"), <<>>)>>, <<"ret-arr0", Call(Id("retL"), <<>>)>> }
RetDecls == << SFun("retE", <<>>, <<SReturn(Lit(S("")))>>), SFun("ret0", <<>>, <<SReturn(Num(0))>>), SFun("retF", <<>>, <<SReturn(Lit(VBool(FALSE)))>>), SFun("retN", <<>>, <<SReturn(Lit(VNil))>>),
              SFun("retB", <<>>, <<SReturn(None)>>), SFun("retX", <<>>, <<>>), SFun("retA", <<>>, <<SReturn(Lit(S("a")))>>), SFun("retS0", <<>>, <<SReturn(Lit(S("0")))>>), SFun("retL", <<>>, <<SReturn(Arr(<<>>))>>) >>

(* expression forms with probes in every operand position *)
BinOpsAll == {"+","-","*","/","%","**","<","<=",">",">=","==","!=","&","|","^","<<",">>"}
Forms1 ==
     { [e |-> Bin(op, Pr(1, Num(6)), Pr(2, Num(3))), c |-> "bin" \o op] : op \in BinOpsAll }
  \cup { [e |-> Un(op, Pr(1, Num(6))), c |-> "un" \o op] : op \in {"-", "~", "!"} }
  \cup { [e |-> Call(Pr(0, Id("g")), <<Pr(1, Num(1)), Pr(2, Num(2)), Pr(3, Num(3))>>), c |-> "call"],
         [e |-> Call(Id("g"), <<Pr(1, Num(1)), Pr(2, Num(2)), Pr(3, Num(3))>>), c |-> "call-plain"],
         [e |-> Arr(<<Pr(1, Num(1)), Pr(2, Num(2)), Pr(3, Num(3))>>), c |-> "arr"],
         [e |-> Obj(<<"a", "b", "c">>, <<Pr(1, Num(1)), Pr(2, Num(2)), Pr(3, Num(3))>>), c |-> "obj"],
         [e |-> Obj(<<"c", "a", "b">>, <<Pr(1, Num(1)), Pr(2, Num(2)), Pr(3, Num(3))>>), c |-> "obj"],
         [e |-> Idx(Pr(1, Arr(<<Num(7), Num(8)>>)), Pr(2, Num(1))), c |-> "idx"],
         [e |-> IAsg(Pr(1, Id("A")), Pr(2, Num(1)), Pr(3, Num(9))), c |-> "iasg"],
         [e |-> Prop(Pr(1, Obj(<<"k">>, <<Num(5)>>)), "k"), c |-> "prop"],
         [e |-> PAsg(Pr(1, Id("O")), "k", Pr(2, Num(5))), c |-> "pasg"],
         [e |-> Asg("x", Pr(1, Num(4))), c |-> "asg"],
         [e |-> Grp(Pr(1, Num(4))), c |-> "grp"],
         [e |-> Bin("+", Asg("x", Num(1)), Bin("*", Asg("x", Bin("+", Id("x"), Num(1))), Id("x"))), c |-> "asg-in-expr"],
         [e |-> Idx(Id("A"), Asg("x", Num(1))), c |-> "asg-in-index"],
         [e |-> IAsg(Id("A"), Id("x"), Asg("x", Num(1))), c |-> "iasg-value-after-index"],
         [e |-> Call(Id("g"), <<Asg("x", Num(1)), Asg("x", Num(2)), Id("x")>>), c |-> "asg-in-args"],
         [e |-> Idx(Pr(1, Num(5)), Pr(2, Num(0))), c |-> "err:idx-non-array"],            \* both operands are evaluated, then the error
         [e |-> Idx(Pr(1, Id("A")), Pr(2, Lit(S("k")))), c |-> "err:idx-bad-index"],
         [e |-> IAsg(Pr(1, Num(5)), Pr(2, Num(0)), Pr(3, Num(9))), c |-> "err:iasg-non-array"],
         [e |-> IAsg(Pr(1, Id("A")), Pr(2, Num(7)), Pr(3, Num(9))), c |-> "err:iasg-range"],
         [e |-> Bin("-", Pr(1, Lit(VNil)), Pr(2, Num(3))), c |-> "err:bin-left"], [e |-> Bin("-", Pr(1, Num(3)), Pr(2, Lit(VNil))), c |-> "err:bin-right"],
         [e |-> Bin("/", Pr(1, Num(3)), Pr(2, Num(0))), c |-> "err:zero"], [e |-> Bin("<<", Pr(1, Lit(D("0.5"))), Pr(2, Num(1))), c |-> "err:bitwise"],
         [e |-> Prop(Pr(1, Num(5)), "k"), c |-> "err:prop-non-object"], [e |-> Prop(Pr(1, Id("O")), "nope"), c |-> "err:prop-missing"],
         [e |-> Call(Pr(0, Num(5)), <<Pr(1, Num(1))>>), c |-> "err:callee"], [e |-> Call(Pr(0, Id("g")), <<Pr(1, Num(1))>>), c |-> "err:arity"],
         [e |-> Call(Id("len"), <<Pr(1, Num(1))>>), c |-> "err:native"], [e |-> Call(Id("push"), <<Pr(1, Id("A")), Pr(2, Num(1)), Pr(3, Num(2))>>), c |-> "native-args"],
         [e |-> Arr(<<Pr(1, Num(1)), Bin("/", Pr(2, Num(1)), Pr(3, Num(0))), Pr(4, Num(4))>>), c |-> "err:in-array"],
         [e |-> Un("-", Pr(1, Lit(S("x")))), c |-> "err:unary"] }

(* depth 2: two-hole forms whose holes are themselves one-level forms over probes *)
Inner == { [e |-> Bin("+", Pr(1, Num(1)), Pr(2, Num(2))), n |-> 2], [e |-> Arr(<<Pr(1, Num(1)), Pr(2, Num(2))>>), n |-> 2],
           [e |-> Call(Id("g"), <<Pr(1, Num(1)), Pr(2, Num(2)), Pr(3, Num(3))>>), n |-> 3], [e |-> Un("-", Pr(1, Num(2))), n |-> 1],
           [e |-> Log("or", Pr(1, Num(0)), Pr(2, Num(5))), n |-> 2], [e |-> Log("and", Pr(1, Num(0)), Pr(2, Num(5))), n |-> 2] }
RECURSIVE Shift(_, _)     \* renumber the probe tags of a sub-expression by k*10
Shift(t, k) == IF t.k = "call" /\ t.c[1] = Id("P") THEN [t EXCEPT !.c = <<t.c[1], Num(ToInt(t.c[2].v.n) + 10 * k), t.c[3]>>]
               ELSE IF t.k \in {"lit", "id", "none"} THEN t
               ELSE [t EXCEPT !.c = [i \in 1..Len(t.c) |-> Shift(t.c[i], k)]]
Forms2 == IF ~Deep THEN {} ELSE
     { [e |-> Bin(op, Shift(a.e, 1), Shift(b.e, 2)), c |-> "bin2" \o op] : op \in {"+", "*", "==", "<", "&", "<<", "**"}, a \in Inner, b \in Inner }
  \cup { [e |-> Call(Id("g"), <<Shift(a.e, 1), Shift(b.e, 2), Pr(3, Num(3))>>), c |-> "call2"] : a \in Inner, b \in Inner }
  \cup { [e |-> Arr(<<Shift(a.e, 1), Shift(b.e, 2)>>), c |-> "arr2"] : a \in Inner, b \in Inner }
  \cup { [e |-> Obj(<<"m", "k">>, <<Shift(a.e, 1), Shift(b.e, 2)>>), c |-> "obj2"] : a \in Inner, b \in Inner }
  \cup { [e |-> Log(op, Shift(a.e, 1), Shift(b.e, 2)), c |-> "log2" \o op] : op \in {"or", "and"}, a \in Inner, b \in Inner }

Prelude == << PDecl, GDecl, SVar("A", Arr(<<Num(7), Num(8), Num(9)>>)), SVar("O", Obj(<<"k">>, <<Num(1)>>)), SVar("x", Num(0)) >>
OrderCases == { [t |-> Prelude \o <<SPrint(f.e), SPrint(Id("A")), SPrint(Id("O")), SPrint(Id("x"))>>, c |-> "order:" \o f.c, key |-> "order:" \o f.c] : f \in Forms1 \cup Forms2 }

(* truthiness: the same value decides identically in if, while, for, !, or, and *)
TruthCases ==
  { [t |-> Prelude \o RetDecls \o << SIf(v[2], SPrint(Lit(S("T"))), SPrint(Lit(S("F")))),
                         SPrint(Un("!", v[2])), SPrint(Un("!", Un("!", v[2]))), SPrint(Arr(<<Un("!", Un("!", Un("!", v[2])))>>)),
                         SPrint(Log("or", Pr(1, v[2]), Pr(2, Lit(S("R"))))), SPrint(LogS("and", Pr(3, v[2]), Pr(4, Lit(S("R"))))),
                         SVar("n", Num(0)),
                         SWhile(v[2], SBlock(<<SPrint(Lit(S("W"))), SBreak>>)),
                         SFor(None, v[2], None, SBlock(<<SPrint(Lit(S("L"))), SBreak>>)) >>,
      c |-> "truth:" \o v[1], key |-> "truth:" \o v[1]] : v \in TruthPool }

Cases == SetToSeq(OrderCases \cup TruthCases)
Programs == TLCEval([i \in 1..Len(Cases) |-> LayoutProg(Cases[i].t, 1)])
FamProgOf(i) == Programs[i]
Init == \E i \in 1..Len(Programs) : InitSem(i, <<>>, FALSE)
Next == SemNext
EmitInv == (EmitOn /\ Final) =>
   Emit([fam |-> "order", cls |-> Cases[pid].c, key |-> Cases[pid].key \o "#" \o IntStr(pid), pid |-> pid,
         toks |-> Compact(Yield(MinParen(P))), tree |-> P, stdin |-> stdin, repl |-> repl,
         status |-> status, why |-> why, out |-> out, diags |-> diags, natlog |-> natlog, steps |-> steps])
NoFault == status \in {"run", "done", "unspec"}
=============================================================================
