CONSTANTS
  ProgOf <- FamProgOf
  MaxSteps = 30000
  HistLen = 3
  NRandom = 5000
  RandLen = 20
  EmitOn = TRUE
INIT Init
NEXT Next
INVARIANTS TerminalIsClassified ErrorHasCause DoneIsClean ScopesWellFormed HeapWellFormed EmitInv
PROPERTIES NoEffectAfterError Monotone StoreLocal OutputAppendOnly VersionGrows
