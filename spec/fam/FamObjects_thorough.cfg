CONSTANTS
  ProgOf <- FamProgOf
  MaxSteps = 30000
  HistLen = 2
  NRandom = 4000
  RandLen = 12
  EmitOn = TRUE
INIT Init
NEXT Next
INVARIANTS TerminalIsClassified ErrorHasCause DoneIsClean ScopesWellFormed HeapWellFormed EmitInv
PROPERTIES NoEffectAfterError Monotone StoreLocal OutputAppendOnly VersionGrows
