----------------------------- MODULE SanitySets -----------------------------
BrokenWhile  == {"WhileSwallowsReturn"}
BrokenError  == {"ErrorDoesNotStop"}
BrokenRemove == {"RemoveShiftsInPlace"}
=============================================================================
