----------------------------- MODULE SanitySets -----------------------------
BrokenWhile  == {"WhileSwallowsReturn"}
BrokenError  == {"ErrorDoesNotStop"}
BrokenRemove == {"RemoveShiftsInPlace"}
BrokenReclaim == {"ReclaimAlways"}
=============================================================================
