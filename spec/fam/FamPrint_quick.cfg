CONSTANTS
  ProgOf <- FamProgOf
  MaxSteps = 3000
  NRandom = 300
  EmitOn = TRUE
INIT Init
NEXT Next
INVARIANTS TerminalIsClassified ErrorHasCause DoneIsClean ScopesWellFormed HeapWellFormed AllDone EmitInv
PROPERTIES NoEffectAfterError Monotone StoreLocal OutputAppendOnly
