CONSTANTS
  ProgOf <- FamProgOf
  MaxSteps = 8000
  EmitOn = TRUE
  CheckLong = TRUE
  ReservedNames = {"clock","len","push","remove","delkey","keys","values","abs","sqrt","pow","sin","cos","tan","min","max","round","input","input_ascii"}
INIT Init
NEXT Next
INVARIANTS ErrorHasCause ScopesWellFormed HeapWellFormed NothingRunsOnStaticError EmitInv
PROPERTIES NoEffectAfterError Monotone StoreLocal OutputAppendOnly
