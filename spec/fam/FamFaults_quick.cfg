CONSTANTS
  ProgOf <- FamProgOf
  MaxSteps = 3000
  Pads = {0}
  EmitOn = TRUE
INIT Init
NEXT Next
INVARIANTS TerminalIsClassified ErrorHasCause DoneIsClean ScopesWellFormed HeapWellFormed EveryFaultIsReported FirstDiagOnly EmitInv
PROPERTIES NoEffectAfterError Monotone StoreLocal OutputAppendOnly
