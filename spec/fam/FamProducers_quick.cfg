CONSTANTS
  ProgOf <- FamProgOf
  MaxSteps = 2000
  EmitOn = TRUE
INIT Init
NEXT Next
INVARIANTS TerminalIsClassified ErrorHasCause DoneIsClean ScopesWellFormed HeapWellFormed EmitInv
PROPERTIES NoEffectAfterError Monotone StoreLocal OutputAppendOnly
