CONSTANTS
  ProgOf <- FamProgOf
  MaxSteps = 4000
  Budget = 3
  NRandom = 30000
  MaxDepth = 2
  EmitOn = TRUE
INIT Init
NEXT Next
INVARIANTS TerminalIsClassified ErrorHasCause DoneIsClean ScopesWellFormed HeapWellFormed OnlyScopeErrors ScopeRestored EmitInv
PROPERTIES NoEffectAfterError Monotone StoreLocal OutputAppendOnly
