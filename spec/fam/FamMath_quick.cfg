CONSTANTS
  ProgOf <- FamProgOf
  MaxSteps = 600
  MaxArgs = 3
  NRandom = 200
  EmitOn = TRUE
INIT Init
NEXT Next
INVARIANTS TerminalIsClassified ErrorHasCause DoneIsClean ScopesWellFormed HeapWellFormed EmitInv
PROPERTIES NoEffectAfterError Monotone StoreLocal OutputAppendOnly
