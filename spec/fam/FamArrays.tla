------------------------------ MODULE FamArrays ------------------------------
(* Program family for C11: histories of array operations on two variables with shared ancestry - literal creation,
   aliasing, nesting, indexed write and read, len used in arithmetic, push with one or two extra arguments (result
   stored in either variable), remove, and mutation through a function parameter - every history of HistLen
   well-indexed operations, each optionally followed by one operation with a bad index (out of range, negative,
   fractional, string, nil, boolean); after every step both variables are printed, so the real interpreter is
   compared with the pure list model after every operation. *)
EXTENDS BornoSem, SequencesExt, SanitySets
CONSTANTS HistLen, NRandom, RandLen, EmitOn

Num(i) == Lit(N(i))
Vars == {"x", "y"}
Other(v) == IF v = "x" THEN "y" ELSE "x"
LastIdx(v) == Bin("-", Call(Id("len"), <<Id(v)>>), Num(1))
LenOf(v) == Call(Id("len"), <<Id(v)>>)
Show == SPrint(Arr(<<Id("x"), Id("y"), Prop(Id("o"), "p")>>))
St(nm, s) == [nm |-> nm, s |-> s]
Good ==
     { St("new1:" \o v, SExpr(Asg(v, Arr(<<Fresh>>)))) : v \in Vars }
  \cup { St("new3:" \o v, SExpr(Asg(v, Arr(<<Fresh, Bin("+", Fresh, Num(1)), Bin("+", Fresh, Num(2))>>)))) : v \in Vars }
  \cup { St("alias:" \o v \o "=" \o Other(v), SExpr(Asg(v, Id(Other(v))))) : v \in Vars }
  \cup { St("nest:" \o v \o "[0]=" \o Other(v), SExpr(IAsg(Id(v), Num(0), Id(Other(v))))) : v \in Vars }
  \cup { St("write0:" \o v, SExpr(IAsg(Id(v), Num(0), Fresh))) : v \in Vars }
  \cup { St("chainw:" \o v, SPrint(IAsg(Id(v), Num(0), IAsg(Id(Other(v)), Num(0), Fresh)))) : v \in Vars }     \* the value of an indexed assignment is the assigned value
  \cup { St("nestread:" \o v, SPrint(Idx(Idx(Arr(<<Id(v), Num(7)>>), Num(0)), LastIdx(v)))) : v \in Vars }     \* two indexes in one expression: each checked against ITS array
  \cup { St("eqstore:" \o v, SExpr(IAsg(Id(v), Num(0), Arr(<<Num(1)>>)))) : v \in Vars }                      \* an array stored where an equal-looking one may sit: identity, not content
  \cup { St("pusharr:" \o v, SExpr(Asg(v, Call(Id("push"), <<Id(v), Id(Other(v)), Id(Other(v))>>)))) : v \in Vars }      \* an array pushed as an element stays THAT array
  \cup { St("twin:" \o v, SBlock(<< SExpr(IAsg(Id(v), Num(0), Arr(<<Num(7)>>))), SVar("tw", Arr(<<Num(7)>>)), SExpr(IAsg(Id(v), Num(0), Id("tw"))),      \* a store replaces what the slot holds even if
                                     SExpr(IAsg(Id("tw"), Num(0), Fresh)), SPrint(Idx(Idx(Id(v), Num(0)), Num(0))) >>)) : v \in Vars }                       \* the old and the new array look alike
  \cup { St("writeLast:" \o v, SExpr(IAsg(Id(v), LastIdx(v), Fresh))) : v \in Vars }
  \cup { St("len:" \o v, SPrint(Bin("+", Bin("*", LenOf(v), Num(2)), Num(1)))) : v \in Vars }
  \cup { St("push1:" \o v \o "<-" \o w, SExpr(Asg(v, Call(Id("push"), <<Id(w), Fresh>>)))) : v \in Vars, w \in Vars }
  \cup { St("push2:" \o v \o "<-" \o w, SExpr(Asg(v, Call(Id("push"), <<Id(w), Fresh, Bin("+", Fresh, Num(1))>>)))) : v \in Vars, w \in Vars }
  \cup { St("remove0:" \o v \o "<-" \o w, SExpr(Asg(v, Call(Id("remove"), <<Id(w), Num(0)>>)))) : v \in Vars, w \in Vars }
  \cup { St("removeLast:" \o v \o "<-" \o w, SExpr(Asg(v, Call(Id("remove"), <<Id(w), LastIdx(w)>>)))) : v \in Vars, w \in Vars }
  \cup { St("pass:" \o v, SExpr(Call(Id("wr"), <<Id(v)>>))) : v \in Vars }
  \cup { St("read0:" \o v, SPrint(Idx(Id(v), Num(0)))) : v \in Vars }
  \cup { St("fresh:" \o v, SExpr(Asg(v, Call(Id("fresh"), <<>>)))) : v \in Vars }                    \* the same constant literal, evaluated again
  \cup { St("removeLast-write:" \o v, SExpr(IAsg(Call(Id("remove"), <<Id(v), LastIdx(v)>>), Num(0), Fresh))) : v \in Vars }   \* write into a result
  \cup { St("holdlit:" \o v, SExpr(Asg("o", Obj(<<"p", "n">>, <<Id(v), Num(0)>>)))) : v \in Vars }      \* held by a property (object literal)
  \cup { St("holdset:" \o v, SExpr(PAsg(Id("o"), "p", Id(v)))) : v \in Vars }                          \* held by a property (store)
  \cup { St("writeprop", SExpr(IAsg(Prop(Id("o"), "p"), Num(0), Fresh))), St("fromprop:x", SExpr(Asg("x", Prop(Id("o"), "p")))) }
BadIdx == { <<"len", LenOf("x")>>, <<"neg", Un("-", Num(1))>>, <<"frac", Lit(D("0.5"))>>, <<"nearzero", Lit(D("0.0000000001"))>>, <<"nearone", Lit(D("1.0000000001"))>>, <<"str", Lit(S("k"))>>, <<"nil", Lit(VNil)>>,
            <<"bool", Lit(VBool(TRUE))>>, <<"big", Lit(D("4294967296"))>>, <<"arr", Arr(<<Num(0)>>)>>,
            <<"2p63", Lit(D("9223372036854775808"))>>, <<"2p64", Lit(D("18446744073709551616"))>>, <<"inf", Bin("*", Lit(D("1e308")), Num(10))>>,
            <<"nan", Bin("-", Bin("*", Lit(D("1e308")), Num(10)), Bin("*", Lit(D("1e308")), Num(10)))>>, <<"-2p63", Un("-", Lit(D("9223372036854775808")))>> }
Bad == { St("badread:" \o b[1], SPrint(Idx(Id("x"), b[2]))) : b \in BadIdx }
       \cup { St("badwrite:" \o b[1], SExpr(IAsg(Id("x"), b[2], Fresh))) : b \in BadIdx }
       \cup { St("badremove:" \o b[1], SExpr(Asg("y", Call(Id("remove"), <<Id("x"), b[2]>>)))) : b \in BadIdx }
       \cup { St("nonarray:read", SPrint(Idx(Num(5), Num(0)))), St("nonarray:len", SPrint(LenOf("q"))), St("nonarray:push", SPrint(Call(Id("push"), <<Id("q"), Num(1)>>))),
              St("push:one-arg", SPrint(Call(Id("push"), <<Id("x")>>))), St("nonarray:write", SExpr(IAsg(Id("q"), Num(0), Num(1)))) }

(* histories as SEQUENCES of sequences: TLC's set union on big sets of big records is quadratic *)
Cross(A, B, F(_, _)) == FlattenSeq([i \in 1..Len(A) |-> [j \in 1..Len(B) |-> F(A[i], B[j])]])
GoodSeq == SetToSeq(Good)
BadSeq == SetToSeq(Bad)
RECURSIVE GoodSeqs(_)
GoodSeqs(n) == IF n = 0 THEN << <<>> >> ELSE LET prev == GoodSeqs(n - 1) IN Cross(prev, GoodSeq, LAMBDA h, g : Append(h, g))
UpTo(n) == FlattenSeq([k \in 1..(n + 1) |-> GoodSeqs(k - 1)])
Hists == UpTo(HistLen) \o Cross(UpTo(HistLen - 1), BadSeq, LAMBDA h, b : Append(h, b))

RECURSIVE RHist(_, _, _)
RHist(s, i, n) == IF n = 0 THEN <<>> ELSE <<GoodSeq[1 + RandInt(s, i, Len(GoodSeq))]>> \o RHist(s, i + 1, n - 1)
Randoms == [k \in 1..NRandom |-> RHist(SeedProp * 4096 + k, 1, RandLen)]

Prelude == << SFun("wr", <<"a">>, <<SExpr(IAsg(Id("a"), Num(0), Fresh))>>), SVar("q", Num(7)), SFun("fresh", <<>>, <<SReturn(Arr(<<Num(7), Num(8), Num(9)>>))>>),
              SVar("x", Arr(<<Num(1), Num(2), Num(3)>>)), SVar("y", Arr(<<Num(4), Num(5)>>)), SVar("o", Obj(<<"p">>, <<Arr(<<Num(9)>>)>>)), Show >>
RECURSIVE Body(_)
Body(h) == IF h = <<>> THEN <<>> ELSE <<h[1].s, Show>> \o Body(Tail(h))
RECURSIVE HName(_)
HName(h) == IF h = <<>> THEN "" ELSE h[1].nm \o ";" \o HName(Tail(h))
ClassOf(h) == IF h = <<>> THEN "empty" ELSE IF Len(h) > HistLen THEN "random" ELSE h[Len(h)].nm   \* class = the last operation

Cases == Hists \o Randoms
Programs == TLCEval([i \in 1..Len(Cases) |-> FreshProg(Prelude \o Body(Cases[i]), 1)])
FamProgOf(i) == Programs[i]
Init == \E i \in 1..Len(Programs) : InitSem(i, <<>>, FALSE)
Next == SemNext
EmitInv == (EmitOn /\ Final) =>
   Emit([fam |-> "arrays", cls |-> ClassOf(Cases[pid]), key |-> HName(Cases[pid]), pid |-> pid,
         toks |-> Compact(Yield(MinParen(P))), tree |-> P, stdin |-> stdin, repl |-> repl,
         status |-> status, why |-> why, out |-> out, diags |-> diags, natlog |-> natlog, steps |-> steps])
(* PushRemoveArePure: the built-ins never modify an existing cell *)
NativesArePure == [][(ctl.m = "val" /\ kont # <<>> /\ Head(kont).f = "kids" /\ Node(Head(kont).p).k = "call"
                      /\ Head(kont).i = Len(Node(Head(kont).p).c) /\ Head(kont).vs # <<>> /\ Head(kont).vs[1].t = "nat"
                      /\ Head(kont).vs[1].name \in {"push", "remove", "len"})
                     => \A r \in 1..Len(heap) : heap'[r] = heap[r]]_semvars
(* arrays never grow, shrink or wrap by indexing *)
IndexingKeepsLength == [][\A r \in 1..Len(heap) : heap[r].t = "arr" => Len(heap'[r].e) = Len(heap[r].e)]_semvars
=============================================================================
