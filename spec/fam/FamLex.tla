------------------------------- MODULE FamLex -------------------------------
(* Family driver for C09 (and the character level of C08): every text of at most MaxFrag fragments over
   the fragment alphabet (keyword fragments only while the text has fewer than MaxKwFrag fragments) is grown
   by Extend, scanned by the scanner machine of BornoLex, checked against the declarative Tokens(text),
   and emitted with its expected token list for replay into the real scanner.  *)
EXTENDS BornoLex
CONSTANTS MaxFrag, MaxKwFrag, EmitOn

CharFrags == { <<c>> : c \in (DOMAIN Op1) \cup {QUOTE, NL, SP, TAB, CR, 97, 2453, 2527, 2494, UNDER, 48, 55, 2534, 2543,
                                               2407, 64, 0, 2547, 2533} }
             \cup { <<47, 42>>, <<42, 47>>, <<42, 42>>, <<47, 47>> }        \* comment openers / closers as single fragments
KwFrags   == { Keyword[k] : k \in KeywordTypes } \cup { Builtin["len"], ReservedExtra }
             \cup { SubSeq(Keyword[k], 1, Len(Keyword[k]) - 1) : k \in {"IF", "ELSE", "NIL"} }

Init == text = <<>> /\ nfr = 0 /\ phase = "build" /\ pos = 1 /\ line = 1 /\ toks = <<>> /\ diags = <<>>

Extend == /\ phase = "build" /\ nfr < MaxFrag
          /\ \E f \in CharFrags \cup (IF nfr < MaxKwFrag THEN KwFrags ELSE {}) :
                text' = text \o f
          /\ nfr' = nfr + 1 /\ UNCHANGED <<phase, pos, line, toks, diags>>
Start  == phase = "build" /\ phase' = "scan" /\ UNCHANGED <<text, nfr, pos, line, toks, diags>>
Next   == Extend \/ Start \/ ScanStep

Slim(tk) == [ty |-> tk.ty, a |-> tk.a, b |-> tk.b, ln |-> tk.ln, lit |-> tk.lit]
EmitInv == (EmitOn /\ Done) => Emit([fam |-> "lex", text |-> text,
                                      toks |-> [i \in 1..Len(toks) |-> Slim(toks[i])], diags |-> diags])
=============================================================================
