CONSTANTS
  Broken <- BrokenError
  ProgOf <- FamProgOf
  MaxSteps = 3000
  Pads = {0}
  EmitOn = FALSE
INIT Init
NEXT Next
INVARIANTS FirstDiagOnly
PROPERTIES NoEffectAfterError
