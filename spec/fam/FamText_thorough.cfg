CONSTANTS
  MaxFrag = 4
  MaxKwFrag = 2
  EmitOn = TRUE
  ReservedNames = {"clock","len","push","remove","delkey","keys","values","abs","sqrt","pow","sin","cos","tan","min","max","round","input","input_ascii"}
INIT Init
NEXT Next
INVARIANTS EmitInv
VIEW TextView
CHECK_DEADLOCK FALSE
