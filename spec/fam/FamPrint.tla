------------------------------ MODULE FamPrint ------------------------------
(* Program family for C15: each printable value is printed alone, inside arrays and objects (also nested), after being
   stored through an index / property assignment, and spliced into a string on either side of `+`.
   Numbers: boundary doubles, powers of ten around the exponent switch, 15-17 digit values, int64 results of bitwise
   operators, seeded random doubles.  Strings: Latin, Bangla letters, combining marks and every Bangla code point with a
   canonical decomposition (and the sequences that compose to them). *)
EXTENDS BornoSem, SequencesExt
CONSTANTS NRandom, EmitOn

Num(i) == Lit(N(i))
Str(s) == Lit(S(s))
Neg(e) == Un("-", e)
InfE == Bin("*", Lit(D("1e308")), Num(10))
NumLit(s) == Lit(D(s))
Nums ==
  { <<s, "num", NumLit(s)>> : s \in { "0", "1", "7", "10", "100000", "999999", "1000000", "1000001", "123456789", "1e21", "1e22", "1e23", "12345678901234567890",
        "0.1", "0.5", "0.3", "1.5", "0.0001", "0.00001", "0.000001", "0.0000001", "123.456", "5e-324", "2.2250738585072014e-308", "1.7976931348623157e308",
        "9007199254740991", "9007199254740992", "9007199254740993", "0.1234567890123456", "1.2345678901234567", "123456789012345.6", "1234567890123456.7", "4.35", "0.000123456789",
        "1e15", "1e16", "1e17", "299792458", "3.141592653589793", "2.718281828459045", "4503599627370497.5" } }
  \cup { <<"-" \o s, "num", Neg(NumLit(s))>> : s \in { "0", "1", "0.5", "1000000", "1e21", "5e-324", "123.456" } }
  \cup { <<"inf", "num-nonfinite", InfE>>, <<"-inf", "num-nonfinite", Neg(InfE)>>, <<"nan", "num-nonfinite", Bin("-", InfE, InfE)>> }
  \cup { <<"0.1+0.2", "num", Bin("+", NumLit("0.1"), NumLit("0.2"))>>, <<"1/3", "num", Bin("/", Num(1), Num(3))>>, <<"2/3", "num", Bin("/", Num(2), Num(3))>>,
         <<"1e6/3", "num", Bin("/", NumLit("1000000"), Num(3))>> }
  \cup { <<"7&3", "num-int64", Bin("&", Num(7), Num(3))>>, <<"1<<19", "num-int64", Bin("<<", Num(1), Num(19))>>, <<"1<<20", "num-int64-big", Bin("<<", Num(1), Num(20))>>,
         <<"999999|0", "num-int64", Bin("|", NumLit("999999"), Num(0))>>, <<"1000000|0", "num-int64-big", Bin("|", NumLit("1000000"), Num(0))>>,
         <<"~0", "num-int64", Un("~", Num(0))>>, <<"1<<53", "num-int64-big", Bin("<<", Num(1), Num(53))>>, <<"(1<<53)|1", "num-int64-wide", Bin("|", Bin("<<", Num(1), Num(53)), Num(1))>>,
         <<"1<<62", "num-int64-big", Bin("<<", Num(1), Num(62))>>, <<"-(1<<20)", "num-int64-big", Bin("^", Bin("<<", Num(1), Num(20)), Un("-", Num(1)))>> }
  \cup { <<"rand" \o IntStr(k), "num-random", LET x == Rand(SeedProp, k) IN IF Digits(x).neg THEN Neg(Lit(VNum(FNeg(x)))) ELSE Lit(VNum(x))>> : k \in 1..NRandom }

(* string units: Latin, Bangla letter, mark, decomposable code points and their decomposed spellings *)
Units == << <<97>>, <<122, 32, 122>>, <<2453>>, <<2453, 2494>>, <<2507>>, <<2503, 2494>>, <<2508>>, <<2503, 2519>>, <<2524>>, <<2465, 2492>>,
            <<2525>>, <<2466, 2492>>, <<2527>>, <<2479, 2492>>, <<2453, 2509, 2487>>, <<2476, 2494, 2434, 2482, 2494>>, <<101, 769>>, <<233>>, <<2453, 2492, 2509>>, <<2453, 2509, 2492>> >>
Strs == { <<"u" \o IntStr(i), "str", Lit(VStr(Units[i]))>> : i \in 1..Len(Units) }
        \cup { <<"u" \o IntStr(i) \o "+" \o IntStr(j), "str", Lit(VStr(Units[i] \o Units[j]))>> : i \in {1, 4, 5, 6, 13, 14}, j \in {2, 6, 9, 10, 14, 17} }
        \cup { <<"empty", "str", Str("")>>, <<"multi-line", "str", Lit(VStr(<<97, 10, 98>>))>>, <<"digits", "str", Str("12")>>, <<"tab", "str", Lit(VStr(<<97, 9, 98>>))>>,
             \* texts that something on the way might take for a number or for a format
             <<"zeros", "str", Str("007")>>, <<"frac0", "str", Str("12.50")>>, <<"bangla05", "str", Lit(VStr(<<2534, 2539>>))>>, <<"exp", "str", Str("1e3")>>, <<"inf", "str", Str("inf")>>, <<"nan", "str", Str("NaN")>>,
             <<"hex", "str", Str("0x10")>>, <<"minus0", "str", Str("-0")>>, <<"pct", "str", Str("50% off")>>, <<"pctd", "str", Str("%d %s %v")>>, <<"pct100", "str", Str("100%")>>, <<"bs", "str", Lit(VStr(<<92, 110>>))>> }
Others == { <<"nil", "nil", Lit(VNil)>>, <<"true", "bool", Lit(VBool(TRUE))>>, <<"false", "bool", Lit(VBool(FALSE))>>, <<"not-true", "bool", Un("!", Lit(VBool(TRUE)))>>,
            <<"cmp", "bool", Bin("<", Num(1), Num(2))>> }
Values == Nums \cup Strs \cup Others

Prog1(e, composite, splice) ==
  << SPrint(e) >> \o (IF splice THEN << SPrint(Bin("+", Str(""), e)), SPrint(Bin("+", e, Str(""))), SPrint(Bin("+", Bin("+", Str("<"), e), Str(">"))) >> ELSE <<>>)
  \o (IF composite THEN
      << SPrint(Arr(<<e>>)), SPrint(Arr(<<e, Num(1), e>>)), SPrint(Obj(<<"k">>, <<e>>)), SPrint(Arr(<<Arr(<<e>>), Obj(<<"k">>, <<Arr(<<e>>)>>)>>)),
         SVar("a", Arr(<<Num(0), Num(0)>>)), SExpr(IAsg(Id("a"), Num(1), e)), SPrint(Id("a")),
         SVar("o", Obj(<<"z">>, <<Num(0)>>)), SExpr(PAsg(Id("o"), "k", e)), SPrint(Id("o")), SPrint(Prop(Id("o"), "k")), SPrint(Idx(Id("a"), Num(1))),
         SFun("id", <<"x">>, <<SReturn(Id("x"))>>), SPrint(Call(Id("id"), <<e>>)), SPrint(Call(Id("push"), <<Arr(<<>>), e>>)),
         SVar("sh", Arr(<<e, Num(2)>>)), SPrint(Arr(<<Id("sh"), Id("sh"), Arr(<<Id("sh")>>)>>)), SPrint(Obj(<<"p", "q">>, <<Id("sh"), Id("sh")>>)),    \* shared, not cyclic
         SVar("so", Obj(<<"k">>, <<e>>)), SPrint(Arr(<<Id("so"), Id("so")>>)), SPrint(Obj(<<"p", "q">>, <<Id("so"), Arr(<<Id("so")>>)>>)) >>
      ELSE <<>>)
IsPlainStr(v) == v[2] # "str" \/ \A c \in {v[3].v.s[i] : i \in 1..Len(v[3].v.s)} : c \notin {9, 10, 32}
Again == <<   \* a container printed, changed, printed again: the second text shows the container as it is then
  [t |-> << SVar("o", Obj(<<"a", "b", "c">>, <<Num(1), Num(2), Num(3)>>)), SPrint(Id("o")), SExpr(Call(Id("delkey"), <<Id("o"), Str("a")>>)), SExpr(PAsg(Id("o"), "z", Num(26))), SPrint(Id("o")),
            SExpr(PAsg(Id("o"), "b", Str("two"))), SPrint(Id("o")), SPrint(Arr(<<Id("o")>>)) >>, c |-> "again", key |-> "again:replace-property"],
  [t |-> << SVar("a", Arr(<<Num(1), Num(2), Num(3)>>)), SPrint(Id("a")), SExpr(IAsg(Id("a"), Num(0), Str("x"))), SPrint(Id("a")), SVar("b", Call(Id("push"), <<Id("a"), Num(4)>>)), SPrint(Id("a")), SPrint(Id("b")),
            SVar("w", Obj(<<"arr">>, <<Id("a")>>)), SPrint(Id("w")), SExpr(IAsg(Id("a"), Num(2), Lit(VNil))), SPrint(Id("w")), SPrint(Arr(<<Id("w"), Id("a")>>)) >>, c |-> "again", key |-> "again:array-through-holder"],
  [t |-> << SVar("o", Obj(<<"k">>, <<Num(1)>>)), SVar("p", Obj(<<"k">>, <<Num(2)>>)), SPrint(Id("o")), SPrint(Id("p")), SPrint(Id("o")), SExpr(Call(Id("delkey"), <<Id("p"), Str("k")>>)), SExpr(PAsg(Id("p"), "m", Num(3))),
            SPrint(Id("p")), SPrint(Id("o")), SVar("q", Obj(<<"m">>, <<Num(9)>>)), SPrint(Id("q")) >>, c |-> "again", key |-> "again:two-objects-same-size"] >>
(* delimiters of printed arrays are not prescribed - but they are the same everywhere: the first three lines teach the
   harness the opening, the closing and the separator, every later line is then determined character by character *)
E0 == Str("")
Seps == << [t |-> << SPrint(Arr(<<>>)), SPrint(Arr(<<Str("a")>>)), SPrint(Arr(<<Str("a"), Str("b")>>)),
                     SPrint(Arr(<<E0, Str("a"), Str("b")>>)), SPrint(Arr(<<Str("a"), E0, Str("b")>>)), SPrint(Arr(<<Str("a"), Str("b"), E0>>)), SPrint(Arr(<<E0, E0>>)), SPrint(Arr(<<E0>>)),
                     SPrint(Arr(<<E0, E0, Str("x y"), E0>>)), SPrint(Arr(<<Arr(<<>>), Arr(<<E0>>), Arr(<<E0, Str("q")>>)>>)), SPrint(Arr(<<E0, Arr(<<E0, E0>>), E0>>)),
                     SVar("g", Arr(<<Str("z"), E0>>)), SExpr(IAsg(Id("g"), Num(0), E0)), SPrint(Id("g")), SPrint(Call(Id("push"), <<Arr(<<>>), E0, Str("k")>>)), SPrint(Call(Id("remove"), <<Arr(<<Str("r"), E0, E0>>), Num(0)>>)) >>,
              c |-> "separators", key |-> "seps:arrays-of-strings"] >>
(* round 7: a number spliced behind the EMPTY string is a string like any other (it concatenates with a number, equals the
   same number spliced in front of the empty string, prints the same inside an array), and +0 and -0 spliced in one run
   keep their own text whichever is spliced first *)
EmptyPre == << <<"5", Num(5)>>, <<"0", Num(0)>>, <<"-0", Neg(Num(0))>>, <<"1e6", NumLit("1000000")>>, <<"0.5", NumLit("0.5")>>, <<"-3", Neg(Num(3))>>, <<"1<<20", Bin("<<", Num(1), Num(20))>> >>
Splices == [i \in 1..Len(EmptyPre) |->
    [t |-> << SVar("s", Bin("+", Str(""), EmptyPre[i][2])), SPrint(Id("s")), SPrint(Bin("+", Id("s"), Num(1))), SPrint(Bin("==", Id("s"), Bin("+", EmptyPre[i][2], Str("")))),
              SPrint(Arr(<<Id("s"), EmptyPre[i][2]>>)), SPrint(Bin("+", Bin("+", Str(""), EmptyPre[i][2]), Id("s"))) >>, c |-> "empty-prefix", key |-> "splice:''+" \o EmptyPre[i][1]]]
  \o << [t |-> << SPrint(Bin("+", Str("z"), Num(0))), SPrint(Bin("+", Str("z"), Neg(Num(0)))), SPrint(Bin("+", Num(0), Str("z"))), SPrint(Arr(<<Neg(Num(0)), Num(0)>>)), SPrint(Bin("+", Str("z"), Num(0))) >>,
           c |-> "both-zeros", key |-> "splice:zeros-pos-first"],
         [t |-> << SPrint(Bin("+", Str("z"), Neg(Num(0)))), SPrint(Bin("+", Str("z"), Num(0))), SPrint(Bin("+", Neg(Num(0)), Str("z"))), SPrint(Arr(<<Num(0), Neg(Num(0))>>)), SPrint(Bin("+", Str("z"), Neg(Num(0)))) >>,
           c |-> "both-zeros", key |-> "splice:zeros-neg-first"] >>
Cases == SetToSeq({ [t |-> Prog1(v[3], IsPlainStr(v), v[2] \notin {"nil", "bool"}), c |-> v[2], key |-> "print:" \o v[1]] : v \in Values }) \o Again \o Seps \o Splices
Programs == TLCEval([i \in 1..Len(Cases) |-> LayoutProg(Cases[i].t, 1)])
FamProgOf(i) == Programs[i]
Init == \E i \in 1..Len(Programs) : InitSem(i, <<>>, FALSE)
Next == SemNext
EmitInv == (EmitOn /\ Final) =>
   Emit([fam |-> "print", cls |-> Cases[pid].c, key |-> Cases[pid].key, pid |-> pid,
         toks |-> Compact(Yield(MinParen(P))), tree |-> P, stdin |-> stdin, repl |-> repl,
         status |-> status, why |-> why, out |-> out, diags |-> diags, natlog |-> natlog, steps |-> steps])
(* the text of a number reads back as the number: ParseLit(NumText(x)) = x for every finite non-negative pool value *)
AllDone == Final => status \in {"done", "unspec"}
=============================================================================
