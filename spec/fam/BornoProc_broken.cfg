CONSTANTS MaxLines = 4
INIT Init
NEXT NextBroken
INVARIANTS ReplLineIndependence
