CONSTANTS
  ProgOf <- FamProgOf
  MaxSteps = 1000000
  Calls = 2600
  Depth = 1000
  EmitOn = TRUE
INIT Init
NEXT Next
INVARIANTS TerminalIsClassified ErrorHasCause DoneIsClean AllEndNormally EmitInv
