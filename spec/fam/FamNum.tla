------------------------------- MODULE FamNum -------------------------------
(* Family driver for C10: numeric literals.  Every string of at most MaxLen characters over the 20 digits of both
   scripts and the point; seeded random literals of up to several hundred digits in random script mixtures; exact
   halfway cases between adjacent doubles (and one unit above / below), subnormals, and the overflow threshold.
   Each text is scanned by the scanner machine, checked against the declarative tokenisation, and emitted with the
   correctly rounded value (Host!ParseLit: BigDecimal, independent of the implementation's conversion). *)
EXTENDS BornoLex, SequencesExt
CONSTANTS MaxLen, NRandom, EmitOn

Alphabet == (48..57) \cup (2534..2543) \cup {DOT}
AlphaSeq == [i \in 1..21 |-> IF i <= 10 THEN 47 + i ELSE IF i <= 20 THEN 2523 + i ELSE DOT]
RECURSIVE Exact(_)       \* sequences, not sets: TLC's union of large sets is quadratic
Exact(n) == IF n = 0 THEN << <<>> >> ELSE LET p == Exact(n - 1) IN [k \in 1..(Len(p) * 21) |-> Append(p[1 + ((k - 1) \div 21)], AlphaSeq[1 + ((k - 1) % 21)])]
RECURSIVE UpTo(_)
UpTo(n) == IF n = 0 THEN Exact(0) ELSE UpTo(n - 1) \o Exact(n)

Mix(s, seed) == [i \in 1..Len(s) |-> IF s[i] \in 48..57 /\ RandInt(seed, i, 2) = 1 THEN s[i] - 48 + 2534 ELSE s[i]]
RECURSIVE RandDigits(_, _, _)
RandDigits(seed, i, n) == IF n = 0 THEN <<>> ELSE <<48 + RandInt(seed, i, 10)>> \o RandDigits(seed, i + 1, n - 1)
RandLit(k) == LET sd == SeedProp * 32768 + k
                  ni == 1 + RandInt(sd, 1, IF k % 5 = 0 THEN 400 ELSE 25)
                  nf == IF RandInt(sd, 2, 2) = 0 THEN 0 ELSE 1 + RandInt(sd, 3, IF k % 7 = 0 THEN 400 ELSE 25) IN
              Mix(RandDigits(sd, 10, ni) \o (IF nf = 0 THEN <<>> ELSE <<DOT>> \o RandDigits(sd, 1000, nf)), sd + 1)
Halfway(k) == LET x == Rand(SeedProp + 1, k)  ax == IF Digits(x).neg THEN FNeg(x) ELSE x IN
              Mix(HalfwayText(ax, (k % 3) - 1), SeedProp * 7 + k)
Special == { Mix(HalfwayText(Dec("1.7976931348623157e308"), b), 3 + b) : b \in {-1, 0, 1} }
           \cup { Mix(HalfwayText(Dec("5e-324"), b), 5 + b) : b \in {-1, 0, 1} }
           \cup { Mix(HalfwayText(Dec("2.2250738585072014e-308"), b), 9 + b) : b \in {-1, 0, 1} }
           \cup { Mix(HalfwayText(Dec("9007199254740992"), b), 11 + b) : b \in {-1, 0, 1} }
           \cup { <<49>> \o [i \in 1..308 |-> 48], <<50>> \o [i \in 1..308 |-> 2534], <<49>> \o [i \in 1..309 |-> 48], <<2535>> \o [i \in 1..400 |-> 2534],
                  <<48, DOT>> \o [i \in 1..400 |-> 48] \o <<49>>, [i \in 1..30 |-> 57] }
SpecialSeq == SetToSeq(Special)
TextSeq == UpTo(MaxLen) \o [k \in 1..NRandom |-> RandLit(k)] \o [k \in 1..NRandom |-> Halfway(k)] \o SpecialSeq

Init == (\E i \in 1..Len(TextSeq) : text = TextSeq[i]) /\ nfr = 0 /\ phase = "scan" /\ pos = 1 /\ line = 1 /\ toks = <<>> /\ diags = <<>>
Next == ScanStep
Slim(tk) == [ty |-> tk.ty, a |-> tk.a, b |-> tk.b, ln |-> tk.ln, lit |-> tk.lit]
EmitInv == (EmitOn /\ Done) => Emit([fam |-> "num", text |-> text, toks |-> [i \in 1..Len(toks) |-> Slim(toks[i])], diags |-> diags])

(* digit script never matters: the value of a literal equals the value of its all-ASCII spelling *)
ScriptInvariant == Done => \A i \in 1..Len(toks) : toks[i].ty = "NUMBER" => toks[i].lit.n = ParseLit(Translit(toks[i].lex))
(* a point not followed by a digit is not part of the number *)
PointNeedsDigit == Done => \A i \in 1..Len(toks) : toks[i].ty = "NUMBER" => (toks[i].lex[Len(toks[i].lex)] # DOT /\ toks[i].lex[1] # DOT)
=============================================================================
