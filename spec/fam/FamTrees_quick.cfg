CONSTANTS
  Deep = FALSE
  EmitOn = TRUE
  ReservedNames = {"clock","len","push","remove","delkey","keys","values","abs","sqrt","pow","sin","cos","tan","min","max","round","input","input_ascii"}
INIT Init
NEXT Next
INVARIANTS Theorems EmitInv
CHECK_DEADLOCK FALSE
