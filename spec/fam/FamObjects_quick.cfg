CONSTANTS
  ProgOf <- FamProgOf
  MaxSteps = 8000
  HistLen = 2
  NRandom = 300
  RandLen = 10
  EmitOn = TRUE
INIT Init
NEXT Next
INVARIANTS TerminalIsClassified ErrorHasCause DoneIsClean ScopesWellFormed HeapWellFormed EmitInv
PROPERTIES NoEffectAfterError Monotone StoreLocal OutputAppendOnly VersionGrows
