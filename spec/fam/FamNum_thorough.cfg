CONSTANTS
  MaxLen = 4
  NRandom = 6000
  EmitOn = TRUE
INIT Init
NEXT Next
INVARIANTS ScannerRefinesMaximalMunch OneEOF LinesTrue Ordered ScriptInvariant PointNeedsDigit EmitInv
CHECK_DEADLOCK FALSE
