CONSTANTS
  ProgOf <- FamProgOf
  MaxSteps = 200000
  CtxDepth = 2
  HistLen = 4
  EmitOn = TRUE
  Stress = FALSE
INIT Init
NEXT Next
INVARIANTS TerminalIsClassified ErrorHasCause DoneIsClean ScopesWellFormed HeapWellFormed CallFramesConsistent LoopsEnd EmitInv
PROPERTIES NoEffectAfterError Monotone StoreLocal OutputAppendOnly ReturnUnwindsToCall
