------------------------------ MODULE BornoLex ------------------------------
(* The operational scanner machine, checked against the declarative tokenisation of BornoLexDecl (see there). *)
EXTENDS BornoLexDecl

---------------------------------------------------------------------------
(* OPERATIONAL LAYER: the scanner machine *)

VARIABLES text, nfr, phase, pos, line, toks, diags
lexvars == <<text, nfr, phase, pos, line, toks, diags>>

RECURSIVE SpanWhileAlnum(_, _)
SpanWhileAlnum(t, p) == IF p <= Len(t) /\ IsAlnum(t[p]) THEN SpanWhileAlnum(t, p+1) ELSE p
RECURSIVE SpanWhileDigit(_, _)
SpanWhileDigit(t, p) == IF p <= Len(t) /\ IsDigit(t[p]) THEN SpanWhileDigit(t, p+1) ELSE p
RECURSIVE SpanToNL(_, _)
SpanToNL(t, p) == IF p <= Len(t) /\ t[p] # NL THEN SpanToNL(t, p+1) ELSE p
RECURSIVE SpanToQuote(_, _)
SpanToQuote(t, p) == IF p <= Len(t) /\ t[p] # QUOTE THEN SpanToQuote(t, p+1) ELSE p
RECURSIVE SpanToClose(_, _)   \* position of the '*' of the first "*/" at or after p, or Len+1
SpanToClose(t, p) == IF p > Len(t) THEN p
                     ELSE IF t[p] = STAR /\ p + 1 <= Len(t) /\ t[p+1] = SLASH THEN p ELSE SpanToClose(t, p+1)

Peek(k) == IF pos + k <= Len(text) THEN text[pos + k] ELSE 0
Scanning == phase = "scan" /\ pos <= Len(text)
Advance(np, nline, ntoks, ndiags) ==
    /\ pos' = np /\ line' = nline /\ toks' = toks \o ntoks /\ diags' = diags \o ndiags
    /\ UNCHANGED <<text, nfr, phase>>

ScanBlank   == Scanning /\ text[pos] \in {SP, TAB, CR} /\ Advance(pos+1, line, <<>>, <<>>)
ScanNewline == Scanning /\ text[pos] = NL /\ Advance(pos+1, line+1, <<>>, <<>>)
ScanOp2     == Scanning /\ <<text[pos], Peek(1)>> \in Op2Set
               /\ Advance(pos+2, line, <<Tok(Op2Type(<<text[pos], Peek(1)>>), text, pos, pos+1, line, NoLit)>>, <<>>)
ScanOp1     == Scanning /\ text[pos] \in DOMAIN Op1 /\ <<text[pos], Peek(1)>> \notin Op2Set
               /\ ~(text[pos] = SLASH /\ Peek(1) \in {SLASH, STAR})
               /\ Advance(pos+1, line, <<Tok(Op1[text[pos]], text, pos, pos, line, NoLit)>>, <<>>)
ScanLineComment == Scanning /\ text[pos] = SLASH /\ Peek(1) = SLASH
               /\ Advance(SpanToNL(text, pos+2), line, <<>>, <<>>)
ScanBlockComment == Scanning /\ text[pos] = SLASH /\ Peek(1) = STAR
               /\ LET c == SpanToClose(text, pos+2) IN
                  IF c > Len(text)
                  THEN Advance(Len(text)+1, line + CountNL(text, pos, Len(text)), <<>>, <<line + CountNL(text, pos, Len(text))>>)
                  ELSE Advance(c+2, line + CountNL(text, pos, c+1), <<>>, <<>>)
ScanString  == Scanning /\ text[pos] = QUOTE
               /\ LET q == SpanToQuote(text, pos+1) IN
                  IF q > Len(text)
                  THEN Advance(Len(text)+1, line + CountNL(text, pos, Len(text)), <<>>, <<line + CountNL(text, pos, Len(text))>>)
                  ELSE LET ln == line + CountNL(text, pos, q) IN
                       Advance(q+1, ln, <<Tok("STRING", text, pos, q, ln, [k |-> "str", s |-> Sub(text, pos+1, q-1)])>>, <<>>)
ScanNumber  == Scanning /\ IsDigit(text[pos])
               /\ LET i == SpanWhileDigit(text, pos)
                      e == IF i + 1 <= Len(text) /\ text[i] = DOT /\ IsDigit(text[i+1]) THEN SpanWhileDigit(text, i+1) ELSE i
                      v == ParseLit(Translit(Sub(text, pos, e-1)))
                  IN IF v = "OVERFLOW" THEN Advance(e, line, <<>>, <<line>>)
                     ELSE Advance(e, line, <<Tok("NUMBER", text, pos, e-1, line, [k |-> "num", n |-> v, bits |-> Bits(v)])>>, <<>>)
ScanIdent   == Scanning /\ IsAlpha(text[pos])
               /\ LET e == SpanWhileAlnum(text, pos) IN
                  Advance(e, line, <<Tok(KeywordTypeOf(Sub(text, pos, e-1)), text, pos, e-1, line, NoLit)>>, <<>>)
ScanBad     == Scanning /\ ~IsBlank(text[pos]) /\ text[pos] \notin DOMAIN Op1 /\ text[pos] # QUOTE
               /\ ~IsDigit(text[pos]) /\ ~IsAlpha(text[pos])
               /\ Advance(pos+1, line, <<>>, <<line>>)
ScanEOF     == phase = "scan" /\ pos > Len(text)
               /\ toks' = Append(toks, [ty |-> "EOF", a |-> Len(text)+1, b |-> Len(text), lex |-> <<>>, ln |-> line, lit |-> NoLit])
               /\ phase' = "done" /\ UNCHANGED <<text, nfr, pos, line, diags>>

ScanStep == ScanBlank \/ ScanNewline \/ ScanOp2 \/ ScanOp1 \/ ScanLineComment \/ ScanBlockComment
            \/ ScanString \/ ScanNumber \/ ScanIdent \/ ScanBad \/ ScanEOF

---------------------------------------------------------------------------
(* properties of a finished scan *)
Done == phase = "done"
ScannerRefinesMaximalMunch == Done => [toks |-> toks, diags |-> diags] = Tokens(text)
OneEOF == Done => /\ toks[Len(toks)].ty = "EOF" /\ toks[Len(toks)].ln = 1 + CountNL(text, 1, Len(text))
                  /\ \A i \in 1..(Len(toks)-1) : toks[i].ty # "EOF"
LinesTrue == Done => \A i \in 1..(Len(toks)-1) : toks[i].ln = 1 + CountNL(text, 1, toks[i].b - 1)
LinesMonotone == \A i \in 1..(Len(toks)-1) : toks[i].ln <= toks[i+1].ln
(* lexemes are disjoint contiguous pieces in source order, and what lies between them is only blanks, comments
   or characters covered by a diagnostic *)
Ordered == \A i \in 1..(Len(toks)-1) : toks[i].a <= toks[i].b /\ (i > 1 => toks[i-1].b < toks[i].a)
KeywordIff == \A i \in 1..Len(toks) : (toks[i].ty # "EOF" /\ IsIdentLexeme(toks[i].lex)) => toks[i].ty = KeywordTypeOf(toks[i].lex)
Covered(i) == \/ \E j \in 1..Len(toks) : toks[j].a <= i /\ i <= toks[j].b
NoSilentDrop == Done /\ diags = <<>> =>
                  \A i \in 1..Len(text) : Covered(i) \/ IsBlank(text[i])
                      \/ \E a \in 1..i : \E b \in i..Len(text) : IsLineComment(Sub(text, a, b)) \/ IsBlockComment(Sub(text, a, b))
StringValueIsInside == \A i \in 1..Len(toks) : toks[i].ty = "STRING" => toks[i].lit.s = Sub(text, toks[i].a + 1, toks[i].b - 1)
=============================================================================
