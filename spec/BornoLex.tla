------------------------------ MODULE BornoLex ------------------------------
(***************************************************************************)
(* The lexical level of Borno (properties C09, C10; used by C08, C18).     *)
(*                                                                         *)
(* Two independent formulations that TLC checks against each other:        *)
(*  - a DECLARATIVE one: Tokens(text) by maximal munch over the lexeme     *)
(*    predicates (what README / C09 say), and                              *)
(*  - an OPERATIONAL one: the scanner machine (variables pos, line, toks,  *)
(*    diags; one action per lexeme class, character-at-a-time loops),      *)
(*    shaped like a hand-written scanner.                                  *)
(* Texts are sequences of Unicode code points (TLC integers).              *)
(***************************************************************************)
EXTENDS Integers, Sequences, FiniteSets, Host, BornoTokens

NL == 10   TAB == 9   CR == 13   SP == 32   QUOTE == 34
SLASH == 47   STAR == 42   DOT == 46   UNDER == 95

(* Character classes.  "Letter" and "combining mark" are Unicode general categories; the specification
   knows them for the finite alphabet it mentions (the harness checks every single code point against
   the Unicode tables separately).  *)
LetterCps == {97, 98, 122, 65, 2453, 2476, 2527, 2544} \cup SpellingLetters
MarkCps   == {2494, 2492} \cup SpellingMarks
AsciiDigit(c)  == c \in 48..57
BanglaDigit(c) == c \in 2534..2543
IsDigit(c)     == AsciiDigit(c) \/ BanglaDigit(c)
IsAlpha(c)     == c \in LetterCps \/ c \in MarkCps \/ c = UNDER
IsAlnum(c)     == IsAlpha(c) \/ IsDigit(c)
IsBlank(c)     == c \in {SP, TAB, CR, NL}

(* one- and two-character operators: lexeme |-> token type *)
Op1 == [ x \in {40,41,123,125,91,93,44,46,45,43,59,58,124,38,94,126,42,33,61,60,62,37,47} |->
         CASE x = 40 -> "LEFT_PAREN" [] x = 41 -> "RIGHT_PAREN" [] x = 123 -> "LEFT_BRACE" [] x = 125 -> "RIGHT_BRACE"
           [] x = 91 -> "LEFT_BRACKET" [] x = 93 -> "RIGHT_BRACKET" [] x = 44 -> "COMMA" [] x = 46 -> "DOT"
           [] x = 45 -> "MINUS" [] x = 43 -> "PLUS" [] x = 59 -> "SEMICOLON" [] x = 58 -> "COLON"
           [] x = 124 -> "OR" [] x = 38 -> "AND" [] x = 94 -> "XOR" [] x = 126 -> "NOT" [] x = 42 -> "STAR"
           [] x = 33 -> "BANG" [] x = 61 -> "EQUAL" [] x = 60 -> "LESS" [] x = 62 -> "GREATER" [] x = 37 -> "MODULO"
           [] x = 47 -> "SLASH" ]
Op2Set == { <<42,42>>, <<60,61>>, <<60,60>>, <<62,61>>, <<62,62>>, <<38,38>>, <<124,124>>, <<61,61>>, <<33,61>> }
Op2Type(s) == CASE s = <<42,42>> -> "POWER" [] s = <<60,61>> -> "LESS_EQUAL" [] s = <<60,60>> -> "LEFT_SHIFT"
                [] s = <<62,61>> -> "GREATER_EQUAL" [] s = <<62,62>> -> "RIGHT_SHIFT" [] s = <<38,38>> -> "LOGICAL_AND"
                [] s = <<124,124>> -> "LOGICAL_OR" [] s = <<61,61>> -> "EQUAL_EQUAL" [] s = <<33,61>> -> "BANG_EQUAL"

Sub(t, a, b) == SubSeq(t, a, b)
CountNL(t, a, b) == Cardinality({i \in a..b : t[i] = NL})

---------------------------------------------------------------------------
(* DECLARATIVE LAYER *)

IsOpLexeme(s)  == (Len(s) = 1 /\ s[1] \in DOMAIN Op1) \/ (Len(s) = 2 /\ s \in Op2Set)
IsIdentLexeme(s) == Len(s) >= 1 /\ IsAlpha(s[1]) /\ \A i \in 1..Len(s) : IsAlnum(s[i])
IsNumberLexeme(s) ==
    /\ Len(s) >= 1
    /\ \E k \in 1..Len(s) :          \* k = number of integer digits
         /\ \A i \in 1..k : IsDigit(s[i])
         /\ \/ k = Len(s)
            \/ /\ k + 2 <= Len(s) /\ s[k+1] = DOT
               /\ \A i \in (k+2)..Len(s) : IsDigit(s[i])
IsStringLexeme(s) == Len(s) >= 2 /\ s[1] = QUOTE /\ s[Len(s)] = QUOTE /\ \A i \in 2..(Len(s)-1) : s[i] # QUOTE
IsLexeme(s) == IsOpLexeme(s) \/ IsIdentLexeme(s) \/ IsNumberLexeme(s) \/ IsStringLexeme(s)

IsBlankPiece(s)   == Len(s) = 1 /\ IsBlank(s[1])
IsLineComment(s)  == Len(s) >= 2 /\ s[1] = SLASH /\ s[2] = SLASH /\ \A i \in 1..Len(s) : s[i] # NL
ClosesAt(s, i)    == i >= 3 /\ i + 1 <= Len(s) /\ s[i] = STAR /\ s[i+1] = SLASH   \* the opener's star is not reused
IsBlockComment(s) == /\ Len(s) >= 4 /\ s[1] = SLASH /\ s[2] = STAR
                     /\ ClosesAt(s, Len(s) - 1)
                     /\ \A i \in 3..(Len(s)-2) : ~ClosesAt(s, i)
IsSkip(s) == IsBlankPiece(s) \/ IsLineComment(s) \/ IsBlockComment(s)

Max(S) == CHOOSE m \in S : \A x \in S : x <= m

(* the longest piece starting at p that is a lexeme or a skip; 0 if none *)
Munch(t, p) == LET ks == {k \in 1..(Len(t) - p + 1) : IsLexeme(Sub(t, p, p+k-1)) \/ IsSkip(Sub(t, p, p+k-1))}
               IN IF ks = {} THEN 0 ELSE Max(ks)

StartsBlock(t, p) == p + 1 <= Len(t) /\ t[p] = SLASH /\ t[p+1] = STAR
StartsLine(t, p)  == p + 1 <= Len(t) /\ t[p] = SLASH /\ t[p+1] = SLASH

Translit(s) == [i \in 1..Len(s) |-> IF BanglaDigit(s[i]) THEN s[i] - 2534 + 48 ELSE s[i]]

KeywordTypeOf(s) == IF \E k \in KeywordTypes : Keyword[k] = s
                    THEN CHOOSE k \in KeywordTypes : Keyword[k] = s ELSE "IDENTIFIER"

NoLit == [k |-> "none"]
Tok(ty, t, a, b, ln, lit) == [ty |-> ty, a |-> a, b |-> b, lex |-> Sub(t, a, b), ln |-> ln, lit |-> lit]

(* The piece of text at position p when the line counter stands at `line`:
   its length, the tokens and diagnostic lines it contributes, and the line afterwards. *)
Piece(t, p, line) ==
  LET rest == Len(t) - p + 1 IN
  IF StartsBlock(t, p) THEN
     \* a comment opener never degrades into a SLASH token
     LET ks == {k \in 4..rest : IsBlockComment(Sub(t, p, p+k-1))} IN
     IF ks = {} THEN [len |-> rest, toks |-> <<>>, diags |-> <<line + CountNL(t, p, Len(t))>>, line |-> line + CountNL(t, p, Len(t))]
     ELSE LET k == Max(ks) IN [len |-> k, toks |-> <<>>, diags |-> <<>>, line |-> line + CountNL(t, p, p+k-1)]
  ELSE
  LET k == Munch(t, p) IN
  IF k = 0 THEN
     IF t[p] = QUOTE
     THEN [len |-> rest, toks |-> <<>>, diags |-> <<line + CountNL(t, p, Len(t))>>, line |-> line + CountNL(t, p, Len(t))]
     ELSE [len |-> 1, toks |-> <<>>, diags |-> <<line>>, line |-> line]        \* a character that starts no token
  ELSE
  LET s == Sub(t, p, p+k-1)   e == p + k - 1 IN
  IF IsSkip(s) THEN [len |-> k, toks |-> <<>>, diags |-> <<>>, line |-> line + CountNL(t, p, e)]
  ELSE IF IsStringLexeme(s) THEN
     LET ln == line + CountNL(t, p, e) IN
     [len |-> k, toks |-> <<Tok("STRING", t, p, e, ln, [k |-> "str", s |-> Sub(t, p+1, e-1)])>>, diags |-> <<>>, line |-> ln]
  ELSE IF IsNumberLexeme(s) THEN
     LET v == ParseLit(Translit(s)) IN
     IF v = "OVERFLOW" THEN [len |-> k, toks |-> <<>>, diags |-> <<line>>, line |-> line]
     ELSE [len |-> k, toks |-> <<Tok("NUMBER", t, p, e, line, [k |-> "num", n |-> v, bits |-> Bits(v)])>>, diags |-> <<>>, line |-> line]
  ELSE IF IsIdentLexeme(s) THEN
     [len |-> k, toks |-> <<Tok(KeywordTypeOf(s), t, p, e, line, NoLit)>>, diags |-> <<>>, line |-> line]
  ELSE [len |-> k, toks |-> <<Tok(IF k = 2 THEN Op2Type(s) ELSE Op1[s[1]], t, p, e, line, NoLit)>>, diags |-> <<>>, line |-> line]

RECURSIVE ScanFrom(_, _, _, _, _)
ScanFrom(t, p, line, toks, diags) ==
  IF p > Len(t) THEN [toks |-> Append(toks, [ty |-> "EOF", a |-> Len(t)+1, b |-> Len(t), lex |-> <<>>, ln |-> line, lit |-> NoLit]),
                      diags |-> diags]
  ELSE LET r == Piece(t, p, line) IN ScanFrom(t, p + r.len, r.line, toks \o r.toks, diags \o r.diags)

Tokens(t) == ScanFrom(t, 1, 1, <<>>, <<>>)

---------------------------------------------------------------------------
(* OPERATIONAL LAYER: the scanner machine *)

VARIABLES text, nfr, phase, pos, line, toks, diags
lexvars == <<text, nfr, phase, pos, line, toks, diags>>

RECURSIVE SpanWhileAlnum(_, _)
SpanWhileAlnum(t, p) == IF p <= Len(t) /\ IsAlnum(t[p]) THEN SpanWhileAlnum(t, p+1) ELSE p
RECURSIVE SpanWhileDigit(_, _)
SpanWhileDigit(t, p) == IF p <= Len(t) /\ IsDigit(t[p]) THEN SpanWhileDigit(t, p+1) ELSE p
RECURSIVE SpanToNL(_, _)
SpanToNL(t, p) == IF p <= Len(t) /\ t[p] # NL THEN SpanToNL(t, p+1) ELSE p
RECURSIVE SpanToQuote(_, _)
SpanToQuote(t, p) == IF p <= Len(t) /\ t[p] # QUOTE THEN SpanToQuote(t, p+1) ELSE p
RECURSIVE SpanToClose(_, _)   \* position of the '*' of the first "*/" at or after p, or Len+1
SpanToClose(t, p) == IF p > Len(t) THEN p
                     ELSE IF t[p] = STAR /\ p + 1 <= Len(t) /\ t[p+1] = SLASH THEN p ELSE SpanToClose(t, p+1)

Peek(k) == IF pos + k <= Len(text) THEN text[pos + k] ELSE 0
Scanning == phase = "scan" /\ pos <= Len(text)
Advance(np, nline, ntoks, ndiags) ==
    /\ pos' = np /\ line' = nline /\ toks' = toks \o ntoks /\ diags' = diags \o ndiags
    /\ UNCHANGED <<text, nfr, phase>>

ScanBlank   == Scanning /\ text[pos] \in {SP, TAB, CR} /\ Advance(pos+1, line, <<>>, <<>>)
ScanNewline == Scanning /\ text[pos] = NL /\ Advance(pos+1, line+1, <<>>, <<>>)
ScanOp2     == Scanning /\ <<text[pos], Peek(1)>> \in Op2Set
               /\ Advance(pos+2, line, <<Tok(Op2Type(<<text[pos], Peek(1)>>), text, pos, pos+1, line, NoLit)>>, <<>>)
ScanOp1     == Scanning /\ text[pos] \in DOMAIN Op1 /\ <<text[pos], Peek(1)>> \notin Op2Set
               /\ ~(text[pos] = SLASH /\ Peek(1) \in {SLASH, STAR})
               /\ Advance(pos+1, line, <<Tok(Op1[text[pos]], text, pos, pos, line, NoLit)>>, <<>>)
ScanLineComment == Scanning /\ text[pos] = SLASH /\ Peek(1) = SLASH
               /\ Advance(SpanToNL(text, pos+2), line, <<>>, <<>>)
ScanBlockComment == Scanning /\ text[pos] = SLASH /\ Peek(1) = STAR
               /\ LET c == SpanToClose(text, pos+2) IN
                  IF c > Len(text)
                  THEN Advance(Len(text)+1, line + CountNL(text, pos, Len(text)), <<>>, <<line + CountNL(text, pos, Len(text))>>)
                  ELSE Advance(c+2, line + CountNL(text, pos, c+1), <<>>, <<>>)
ScanString  == Scanning /\ text[pos] = QUOTE
               /\ LET q == SpanToQuote(text, pos+1) IN
                  IF q > Len(text)
                  THEN Advance(Len(text)+1, line + CountNL(text, pos, Len(text)), <<>>, <<line + CountNL(text, pos, Len(text))>>)
                  ELSE LET ln == line + CountNL(text, pos, q) IN
                       Advance(q+1, ln, <<Tok("STRING", text, pos, q, ln, [k |-> "str", s |-> Sub(text, pos+1, q-1)])>>, <<>>)
ScanNumber  == Scanning /\ IsDigit(text[pos])
               /\ LET i == SpanWhileDigit(text, pos)
                      e == IF i + 1 <= Len(text) /\ text[i] = DOT /\ IsDigit(text[i+1]) THEN SpanWhileDigit(text, i+1) ELSE i
                      v == ParseLit(Translit(Sub(text, pos, e-1)))
                  IN IF v = "OVERFLOW" THEN Advance(e, line, <<>>, <<line>>)
                     ELSE Advance(e, line, <<Tok("NUMBER", text, pos, e-1, line, [k |-> "num", n |-> v, bits |-> Bits(v)])>>, <<>>)
ScanIdent   == Scanning /\ IsAlpha(text[pos])
               /\ LET e == SpanWhileAlnum(text, pos) IN
                  Advance(e, line, <<Tok(KeywordTypeOf(Sub(text, pos, e-1)), text, pos, e-1, line, NoLit)>>, <<>>)
ScanBad     == Scanning /\ ~IsBlank(text[pos]) /\ text[pos] \notin DOMAIN Op1 /\ text[pos] # QUOTE
               /\ ~IsDigit(text[pos]) /\ ~IsAlpha(text[pos])
               /\ Advance(pos+1, line, <<>>, <<line>>)
ScanEOF     == phase = "scan" /\ pos > Len(text)
               /\ toks' = Append(toks, [ty |-> "EOF", a |-> Len(text)+1, b |-> Len(text), lex |-> <<>>, ln |-> line, lit |-> NoLit])
               /\ phase' = "done" /\ UNCHANGED <<text, nfr, pos, line, diags>>

ScanStep == ScanBlank \/ ScanNewline \/ ScanOp2 \/ ScanOp1 \/ ScanLineComment \/ ScanBlockComment
            \/ ScanString \/ ScanNumber \/ ScanIdent \/ ScanBad \/ ScanEOF

---------------------------------------------------------------------------
(* properties of a finished scan *)
Done == phase = "done"
ScannerRefinesMaximalMunch == Done => [toks |-> toks, diags |-> diags] = Tokens(text)
OneEOF == Done => /\ toks[Len(toks)].ty = "EOF" /\ toks[Len(toks)].ln = 1 + CountNL(text, 1, Len(text))
                  /\ \A i \in 1..(Len(toks)-1) : toks[i].ty # "EOF"
LinesTrue == Done => \A i \in 1..(Len(toks)-1) : toks[i].ln = 1 + CountNL(text, 1, toks[i].b - 1)
LinesMonotone == \A i \in 1..(Len(toks)-1) : toks[i].ln <= toks[i+1].ln
(* lexemes are disjoint contiguous pieces in source order, and what lies between them is only blanks, comments
   or characters covered by a diagnostic *)
Ordered == \A i \in 1..(Len(toks)-1) : toks[i].a <= toks[i].b /\ (i > 1 => toks[i-1].b < toks[i].a)
KeywordIff == \A i \in 1..Len(toks) : (toks[i].ty # "EOF" /\ IsIdentLexeme(toks[i].lex)) => toks[i].ty = KeywordTypeOf(toks[i].lex)
Covered(i) == \/ \E j \in 1..Len(toks) : toks[j].a <= i /\ i <= toks[j].b
NoSilentDrop == Done /\ diags = <<>> =>
                  \A i \in 1..Len(text) : Covered(i) \/ IsBlank(text[i])
                      \/ \E a \in 1..i : \E b \in i..Len(text) : IsLineComment(Sub(text, a, b)) \/ IsBlockComment(Sub(text, a, b))
StringValueIsInside == \A i \in 1..Len(toks) : toks[i].ty = "STRING" => toks[i].lit.s = Sub(text, toks[i].a + 1, toks[i].b - 1)
=============================================================================
