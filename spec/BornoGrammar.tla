---------------------------- MODULE BornoGrammar ----------------------------
(***************************************************************************)
(* The published grammar of Borno (grammer.txt, Bangla section; README      *)
(* "Core Grammar") as a predictive recogniser / tree builder over token      *)
(* sequences, with the four readings stated in property C08:                 *)
(*   - the call rule is any chain of ( ), [ ] and .name suffixes;            *)
(*   - `{` at the start of a statement opens a block;                        *)
(*   - built-in (reserved) names are barred as declared variable or function *)
(*     names (parameters and property names are not declarations);           *)
(*   - at most 255 parameters.                                               *)
(* It is written from the grammar, one operator per nonterminal, and is      *)
(* independent of the implementation's parser.  A predictive parser has the  *)
(* valid-prefix property: it fails exactly at the first token at which the   *)
(* text stops being the beginning of any valid program (an invalid           *)
(* assignment target is flagged at its `=`).                                 *)
(* Tokens are those of BornoSyntax!Yield, so Yield(Parse(ts).t) = ts can be  *)
(* checked; the ladder relation Canon is the second, declarative formulation *)
(* the trees must satisfy (C01).                                             *)
(***************************************************************************)
EXTENDS BornoSyntax

CONSTANT ReservedNames      \* symbolic names of the reserved identifiers

EOFTok == [t |-> "eof", x |-> ""]
Tk(ts, i) == IF i <= Len(ts) THEN ts[i] ELSE EOFTok
IsOp(ts, i, x) == Tk(ts, i).t = "op" /\ Tk(ts, i).x = x
IsKw(ts, i, x) == Tk(ts, i).t = "kw" /\ Tk(ts, i).x = x
IsIdT(ts, i)   == Tk(ts, i).t = "id"

OK(i, t) == [ok |-> TRUE, i |-> i, t |-> t]
Bad(at)  == [ok |-> FALSE, at |-> at]

(* binary level of the token at i (0 = not a binary operator); logical operators have levels 2 and 3 *)
TokLevel(ts, i) ==
  LET k == Tk(ts, i) IN
  IF k.t = "op" /\ k.x \in BinOps THEN BinLevel[k.x]
  ELSE IF (k.t = "kw" /\ k.x = "or") \/ (k.t = "op" /\ k.x = "||") THEN 2
  ELSE IF (k.t = "kw" /\ k.x = "and") \/ (k.t = "op" /\ k.x = "&&") THEN 3
  ELSE 0
MkBin(k, l, r) == IF k.t = "kw" THEN Log(k.x, l, r)
                  ELSE IF k.x = "||" THEN LogS("or", l, r) ELSE IF k.x = "&&" THEN LogS("and", l, r) ELSE Bin(k.x, l, r)

RECURSIVE PExpr(_, _), PLevel(_, _, _), PLoop(_, _, _, _), PUnary(_, _), PSuffix(_, _, _), PPrimary(_, _),
          PList(_, _, _, _), PProps(_, _, _, _), PStmt(_, _), PDecl(_, _), PDecls(_, _, _, _), PVars(_, _, _), PParams(_, _, _)

(* expr -> assignment ; assignment -> L2 ( "=" assignment )?   (right associative; the left side must be a
   bare chain ending in a name, an index or a property) *)
PExpr(ts, i) ==
  LET l == PLevel(ts, i, 2) IN
  IF ~l.ok THEN l
  ELSE IF ~IsOp(ts, l.i, "=") THEN l
  ELSE IF l.t.k \notin {"id", "idx", "prop"} THEN Bad(l.i)                     \* invalid assignment target: at its "="
  ELSE LET v == PExpr(ts, l.i + 1) IN
       IF ~v.ok THEN v
       ELSE OK(v.i, CASE l.t.k = "id" -> Asg(l.t.name, v.t)
                      [] l.t.k = "idx" -> IAsg(l.t.c[1], l.t.c[2], v.t)
                      [] l.t.k = "prop" -> PAsg(l.t.c[1], l.t.name, v.t))

(* L_n -> L_(n+1) ( op_n L_(n+1) )*   for n = 2..12 (left associative); L_13 = unary *)
PLevel(ts, i, n) ==
  IF n = 13 THEN PUnary(ts, i)
  ELSE LET l == PLevel(ts, i, n + 1) IN IF ~l.ok THEN l ELSE PLoop(ts, l.i, n, l.t)
PLoop(ts, i, n, left) ==
  IF TokLevel(ts, i) # n THEN OK(i, left)
  ELSE LET r == PLevel(ts, i + 1, n + 1) IN
       IF ~r.ok THEN r ELSE PLoop(ts, r.i, n, MkBin(Tk(ts, i), left, r.t))

(* unary -> ( "!" | "-" | "~" ) unary | call *)
PUnary(ts, i) ==
  IF Tk(ts, i).t = "op" /\ Tk(ts, i).x \in UnOps
  THEN LET r == PUnary(ts, i + 1) IN IF ~r.ok THEN r ELSE OK(r.i, Un(Tk(ts, i).x, r.t))
  ELSE LET p == PPrimary(ts, i) IN IF ~p.ok THEN p ELSE PSuffix(ts, p.i, p.t)

(* call -> primary ( "(" arguments? ")" | "[" expression "]" | "." IDENTIFIER )* *)
PSuffix(ts, i, e) ==
  IF IsOp(ts, i, "(") THEN
     LET a == PList(ts, i + 1, ")", <<>>) IN IF ~a.ok THEN a ELSE PSuffix(ts, a.i, Call(e, a.t))
  ELSE IF IsOp(ts, i, "[") THEN
     LET x == PExpr(ts, i + 1) IN
     IF ~x.ok THEN x ELSE IF ~IsOp(ts, x.i, "]") THEN Bad(x.i) ELSE PSuffix(ts, x.i + 1, Idx(e, x.t))
  ELSE IF IsOp(ts, i, ".") THEN
     IF ~IsIdT(ts, i + 1) THEN Bad(i + 1) ELSE PSuffix(ts, i + 2, Prop(e, Tk(ts, i + 1).x))
  ELSE OK(i, e)

(* ( expression ( "," expression )* )? closer        -- arguments and array elements *)
PList(ts, i, closer, acc) ==
  IF acc = <<>> /\ IsOp(ts, i, closer) THEN OK(i + 1, acc)
  ELSE LET e == PExpr(ts, i) IN
       IF ~e.ok THEN e
       ELSE IF IsOp(ts, e.i, ",") THEN PList(ts, e.i + 1, closer, Append(acc, e.t)) \* note: acc non-empty now, so a closer right after "," is an error
       ELSE IF IsOp(ts, e.i, closer) THEN OK(e.i + 1, Append(acc, e.t))
       ELSE Bad(e.i)

(* objectLiteral -> "{" ( IDENTIFIER ":" expression ( "," IDENTIFIER ":" expression )* )? "}" *)
PProps(ts, i, ks, es) ==
  IF ks = <<>> /\ IsOp(ts, i, "}") THEN OK(i + 1, Obj(ks, es))
  ELSE IF ~IsIdT(ts, i) THEN Bad(i)
  ELSE IF ~IsOp(ts, i + 1, ":") THEN Bad(i + 1)
  ELSE LET e == PExpr(ts, i + 2) IN
       IF ~e.ok THEN e
       ELSE IF IsOp(ts, e.i, ",") THEN PProps(ts, e.i + 1, Append(ks, Tk(ts, i).x), Append(es, e.t))
       ELSE IF IsOp(ts, e.i, "}") THEN OK(e.i + 1, Obj(Append(ks, Tk(ts, i).x), Append(es, e.t)))
       ELSE Bad(e.i)

PPrimary(ts, i) ==
  LET k == Tk(ts, i) IN
  CASE k.t = "num" -> OK(i + 1, Lit([t |-> "num", n |-> k.x]))
    [] k.t = "str" -> OK(i + 1, Lit([t |-> "str", s |-> StrCps(k.x)]))
    [] k.t = "kw" /\ k.x = "true" -> OK(i + 1, Lit([t |-> "bool", b |-> TRUE]))
    [] k.t = "kw" /\ k.x = "false" -> OK(i + 1, Lit([t |-> "bool", b |-> FALSE]))
    [] k.t = "kw" /\ k.x = "nil" -> OK(i + 1, Lit([t |-> "nil"]))
    [] k.t = "id" -> OK(i + 1, Id(k.x))
    [] k.t = "op" /\ k.x = "(" -> (LET e == PExpr(ts, i + 1) IN
                                   IF ~e.ok THEN e ELSE IF ~IsOp(ts, e.i, ")") THEN Bad(e.i) ELSE OK(e.i + 1, Grp(e.t)))
    [] k.t = "op" /\ k.x = "[" -> (LET a == PList(ts, i + 1, "]", <<>>) IN IF ~a.ok THEN a ELSE OK(a.i, Arr(a.t)))
    [] k.t = "op" /\ k.x = "{" -> PProps(ts, i + 1, <<>>, <<>>)
    [] OTHER -> Bad(i)

(* variable ( "," variable )* ";"   with variable -> IDENTIFIER ( "=" expression )?  ; reserved names are barred *)
PVars(ts, i, acc) ==
  IF ~IsIdT(ts, i) \/ Tk(ts, i).x \in ReservedNames THEN Bad(i)
  ELSE LET nm == Tk(ts, i).x
           init == IF IsOp(ts, i + 1, "=") THEN PExpr(ts, i + 2) ELSE OK(i + 1, None) IN
       IF ~init.ok THEN init
       ELSE LET acc2 == Append(acc, SVar(nm, init.t)) IN
            IF IsOp(ts, init.i, ",") THEN PVars(ts, init.i + 1, acc2)
            ELSE IF IsOp(ts, init.i, ";") THEN OK(init.i + 1, IF Len(acc2) = 1 THEN acc2[1] ELSE SVarList(acc2))
            ELSE Bad(init.i)

(* parameters -> IDENTIFIER ( "," IDENTIFIER )*    at most 255; i is just after "(" ; returns after ")" *)
PParams(ts, i, acc) ==
  IF acc = <<>> /\ IsOp(ts, i, ")") THEN OK(i + 1, acc)
  ELSE IF Len(acc) >= 255 THEN Bad(i)
  ELSE IF ~IsIdT(ts, i) THEN Bad(i)
  ELSE IF IsOp(ts, i + 1, ",") THEN PParams(ts, i + 2, Append(acc, Tk(ts, i).x))
  ELSE IF IsOp(ts, i + 1, ")") THEN OK(i + 2, Append(acc, Tk(ts, i).x))
  ELSE Bad(i + 1)

(* declaration* up to `closer` ("}" or end of input) *)
PDecls(ts, i, toEOF, acc) ==
  IF toEOF /\ Tk(ts, i).t = "eof" THEN OK(i, acc)
  ELSE IF ~toEOF /\ IsOp(ts, i, "}") THEN OK(i + 1, acc)
  ELSE IF ~toEOF /\ Tk(ts, i).t = "eof" THEN Bad(i)
  ELSE LET d == PDecl(ts, i) IN IF ~d.ok THEN d ELSE PDecls(ts, d.i, toEOF, Append(acc, d.t))

PDecl(ts, i) ==
  IF IsKw(ts, i, "fun") THEN
     IF ~IsIdT(ts, i + 1) \/ Tk(ts, i + 1).x \in ReservedNames THEN Bad(i + 1)
     ELSE IF ~IsOp(ts, i + 2, "(") THEN Bad(i + 2)
     ELSE LET ps == PParams(ts, i + 3, <<>>) IN
          IF ~ps.ok THEN ps
          ELSE IF ~IsOp(ts, ps.i, "{") THEN Bad(ps.i)
          ELSE LET b == PDecls(ts, ps.i + 1, FALSE, <<>>) IN
               IF ~b.ok THEN b ELSE OK(b.i, SFun(Tk(ts, i + 1).x, ps.t, b.t))
  ELSE IF IsKw(ts, i, "var") THEN PVars(ts, i + 1, <<>>)
  ELSE PStmt(ts, i)

Semi(ts, r, mk(_)) == IF ~r.ok THEN r ELSE IF ~IsOp(ts, r.i, ";") THEN Bad(r.i) ELSE OK(r.i + 1, mk(r.t))
Paren(ts, i) ==   \* "(" expression ")"
  IF ~IsOp(ts, i, "(") THEN Bad(i)
  ELSE LET e == PExpr(ts, i + 1) IN IF ~e.ok THEN e ELSE IF ~IsOp(ts, e.i, ")") THEN Bad(e.i) ELSE OK(e.i + 1, e.t)

PStmt(ts, i) ==
  IF IsKw(ts, i, "if") THEN
     LET c == Paren(ts, i + 1) IN
     IF ~c.ok THEN c
     ELSE LET th == PStmt(ts, c.i) IN
          IF ~th.ok THEN th
          ELSE IF IsKw(ts, th.i, "else")                                   \* else binds to the nearest if
               THEN LET el == PStmt(ts, th.i + 1) IN IF ~el.ok THEN el ELSE OK(el.i, SIf(c.t, th.t, el.t))
               ELSE OK(th.i, SIf(c.t, th.t, None))
  ELSE IF IsKw(ts, i, "while") THEN
     LET c == Paren(ts, i + 1) IN
     IF ~c.ok THEN c ELSE LET b == PStmt(ts, c.i) IN IF ~b.ok THEN b ELSE OK(b.i, SWhile(c.t, b.t))
  ELSE IF IsKw(ts, i, "for") THEN
     IF ~IsOp(ts, i + 1, "(") THEN Bad(i + 1)
     ELSE LET init == IF IsOp(ts, i + 2, ";") THEN OK(i + 3, None)
                      ELSE IF IsKw(ts, i + 2, "var") THEN PVars(ts, i + 3, <<>>)
                      ELSE Semi(ts, PExpr(ts, i + 2), SExpr) IN
          IF ~init.ok THEN init
          ELSE LET cond == IF IsOp(ts, init.i, ";") THEN OK(init.i, None) ELSE PExpr(ts, init.i) IN
               IF ~cond.ok THEN cond
               ELSE IF ~IsOp(ts, cond.i, ";") THEN Bad(cond.i)
               ELSE LET incr == IF IsOp(ts, cond.i + 1, ")") THEN OK(cond.i + 1, None) ELSE PExpr(ts, cond.i + 1) IN
                    IF ~incr.ok THEN incr
                    ELSE IF ~IsOp(ts, incr.i, ")") THEN Bad(incr.i)
                    ELSE LET b == PStmt(ts, incr.i + 1) IN
                         IF ~b.ok THEN b ELSE OK(b.i, SFor(init.t, cond.t, incr.t, b.t))
  ELSE IF IsKw(ts, i, "print") THEN Semi(ts, PExpr(ts, i + 1), SPrint)
  ELSE IF IsKw(ts, i, "return") THEN
     IF IsOp(ts, i + 1, ";") THEN OK(i + 2, SReturn(None)) ELSE Semi(ts, PExpr(ts, i + 1), SReturn)
  ELSE IF IsKw(ts, i, "break") THEN (IF IsOp(ts, i + 1, ";") THEN OK(i + 2, SBreak) ELSE Bad(i + 1))
  ELSE IF IsKw(ts, i, "continue") THEN (IF IsOp(ts, i + 1, ";") THEN OK(i + 2, SContinue) ELSE Bad(i + 1))
  ELSE IF IsOp(ts, i, "{") THEN                                             \* `{` at statement start opens a block
     LET b == PDecls(ts, i + 1, FALSE, <<>>) IN IF ~b.ok THEN b ELSE OK(b.i, SBlock(b.t))
  ELSE Semi(ts, PExpr(ts, i), SExpr)

(* program -> declaration* EOF *)
Parse(ts) == LET r == PDecls(ts, 1, TRUE, <<>>) IN IF r.ok THEN [ok |-> TRUE, t |-> Prog(r.t)] ELSE r

Accepted(ts) == Parse(ts).ok
ErrAt(ts)    == LET r == Parse(ts) IN IF r.ok THEN 0 ELSE r.at          \* Len(ts) + 1 = at end of input; 0 = accepted
Viable(ts)   == LET r == Parse(ts) IN IF r.ok THEN TRUE ELSE r.at = Len(ts) + 1     \* the beginning of some valid program
=============================================================================
