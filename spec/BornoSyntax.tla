---------------------------- MODULE BornoSyntax ----------------------------
(***************************************************************************)
(* Abstract syntax of Borno, the published precedence ladder as a RELATION *)
(* on trees (Canon), the token yield of a tree (Yield), and the two        *)
(* parenthesisations MinParen / FullParen with their inverse Strip.        *)
(* (properties C01, C08, C18e; every program family renders through        *)
(* MinParen and Yield, nothing else).                                      *)
(*                                                                         *)
(* A node is a record with a kind k, a sequence of children c and          *)
(* attributes.  Expression kinds:                                          *)
(*   lit(v) id(name) grp un(op) bin(op) log(op, sp) asg(name) iasg pasg(name)*)
(*   call idx prop(name) arr obj(keys)                                     *)
(* Statement kinds (each carries its source line ln):                      *)
(*   expr print var(name) varlist block if while for break continue return *)
(*   fun(name, params)            and the placeholder none.                *)
(***************************************************************************)
EXTENDS Integers, Sequences, FiniteSets, Host

None == [k |-> "none"]
IsNone(n) == n.k = "none"

(* ---- constructors ---- *)
Lit(v)          == [k |-> "lit", v |-> v, c |-> <<>>]
Id(x)           == [k |-> "id", name |-> x, c |-> <<>>]
Grp(e)          == [k |-> "grp", c |-> <<e>>]
Un(op, e)       == [k |-> "un", op |-> op, c |-> <<e>>]
Bin(op, l, r)   == [k |-> "bin", op |-> op, c |-> <<l, r>>]
Log(op, l, r)   == [k |-> "log", op |-> op, sp |-> "word", c |-> <<l, r>>]    \* op in {"or","and"}; sp in {"word","sym"}
LogS(op, l, r)  == [k |-> "log", op |-> op, sp |-> "sym", c |-> <<l, r>>]
Asg(x, e)       == [k |-> "asg", name |-> x, c |-> <<e>>]
IAsg(a, i, e)   == [k |-> "iasg", c |-> <<a, i, e>>]
PAsg(o, x, e)   == [k |-> "pasg", name |-> x, c |-> <<o, e>>]
Call(f, args)   == [k |-> "call", c |-> <<f>> \o args]
Idx(a, i)       == [k |-> "idx", c |-> <<a, i>>]
Prop(o, x)      == [k |-> "prop", name |-> x, c |-> <<o>>]
Arr(es)         == [k |-> "arr", c |-> es]
Obj(ks, es)     == [k |-> "obj", keys |-> ks, c |-> es]

SExpr(e)        == [k |-> "expr", ln |-> 0, c |-> <<e>>]
SPrint(e)       == [k |-> "print", ln |-> 0, c |-> <<e>>]
SVar(x, e)      == [k |-> "var", name |-> x, ln |-> 0, c |-> <<e>>]     \* e = None: no initialiser
SVarList(vs)    == [k |-> "varlist", ln |-> 0, c |-> vs]
SBlock(ss)      == [k |-> "block", ln |-> 0, c |-> ss]
SIf(e, s1, s2)  == [k |-> "if", ln |-> 0, c |-> <<e, s1, s2>>]          \* s2 = None: no else
SWhile(e, s)    == [k |-> "while", ln |-> 0, c |-> <<e, s>>]
SFor(i, e, u, s) == [k |-> "for", ln |-> 0, c |-> <<i, e, u, s>>]       \* i, e, u may be None
SBreak          == [k |-> "break", ln |-> 0, c |-> <<>>]
SContinue       == [k |-> "continue", ln |-> 0, c |-> <<>>]
SReturn(e)      == [k |-> "return", ln |-> 0, c |-> <<e>>]              \* e may be None
SFun(f, ps, ss) == [k |-> "fun", name |-> f, params |-> ps, ln |-> 0, c |-> ss]
Prog(ss)        == [k |-> "prog", c |-> ss]

StmtKinds == {"expr","print","var","varlist","block","if","while","for","break","continue","return","fun"}
IsStmt(n) == n.k \in StmtKinds

RECURSIVE At(_, _)
At(t, p) == IF p = <<>> THEN t ELSE At(t.c[Head(p)], Tail(p))

(* ---- the precedence ladder ---- *)
BinLevel == [ x \in {"|","^","&","==","!=","<","<=",">",">=","<<",">>","+","-","*","/","%","**"} |->
              CASE x = "|" -> 4 [] x = "^" -> 5 [] x = "&" -> 6 [] x \in {"==","!="} -> 7
                [] x \in {"<","<=",">",">="} -> 8 [] x \in {"<<",">>"} -> 9 [] x \in {"+","-"} -> 10
                [] x \in {"*","/","%"} -> 11 [] x = "**" -> 12 ]
BinOps == DOMAIN BinLevel
UnOps  == {"!", "-", "~"}

Lvl(t) == CASE t.k \in {"asg","iasg","pasg"} -> 1
            [] t.k = "log" -> (IF t.op = "or" THEN 2 ELSE 3)
            [] t.k = "bin" -> BinLevel[t.op]
            [] t.k = "un" -> 13
            [] t.k \in {"call","idx","prop"} -> 14
            [] OTHER -> 15

(* The ladder as a relation: which trees are in the shape the grammar produces.  Delimited positions
   (group, arguments, index, elements, property values, conditions, initialisers) admit any level. *)
IsDecl(s) == s.k \in {"var", "varlist", "fun"}    \* declarations are not statements: not allowed as a bare branch or loop body
RECURSIVE Canon(_)
AllCanon(s) == \A i \in 1..Len(s) : Canon(s[i])
RECURSIVE OpenIf(_)
OpenIf(s) == \* a statement that ends in an else-less `if` would capture a following else
   CASE s.k = "if" -> (IF IsNone(s.c[3]) THEN TRUE ELSE OpenIf(s.c[3]))
     [] s.k = "while" -> OpenIf(s.c[2])
     [] s.k = "for" -> OpenIf(s.c[4])
     [] OTHER -> FALSE
Canon(t) ==
  CASE t.k \in {"lit","id","none","break","continue"} -> TRUE
    [] t.k = "grp"  -> Canon(t.c[1])
    [] t.k = "un"   -> Lvl(t.c[1]) >= 13 /\ Canon(t.c[1])
    [] t.k \in {"bin","log"} -> Lvl(t.c[1]) >= Lvl(t) /\ Lvl(t.c[2]) >= Lvl(t) + 1 /\ Canon(t.c[1]) /\ Canon(t.c[2])
    [] t.k = "asg"  -> Canon(t.c[1])                                    \* value: an assignment again (right assoc) or higher
    [] t.k = "iasg" -> Lvl(t.c[1]) >= 14 /\ AllCanon(t.c)
    [] t.k = "pasg" -> Lvl(t.c[1]) >= 14 /\ AllCanon(t.c)
    [] t.k \in {"call","idx","prop"} -> Lvl(t.c[1]) >= 14 /\ AllCanon(t.c)
    [] t.k \in {"arr","obj"} -> AllCanon(t.c)
    [] t.k = "if" -> AllCanon(t.c) /\ (~IsNone(t.c[3]) => ~OpenIf(t.c[2])) /\ ~IsDecl(t.c[2]) /\ ~IsDecl(t.c[3])
    [] t.k = "while" -> AllCanon(t.c) /\ ~IsDecl(t.c[2])
    [] t.k = "for" -> AllCanon(t.c) /\ ~IsDecl(t.c[4]) /\ t.c[1].k \in {"none", "var", "varlist", "expr"}
    [] OTHER -> AllCanon(t.c)

(* ---- yield: the token sequence of a tree ---- *)
Op(x)   == [t |-> "op", x |-> x]
Kw(x)   == [t |-> "kw", x |-> x]
IdT(x)  == [t |-> "id", x |-> x]
LnT(n)  == [t |-> "ln", x |-> IntStr(n)]

LitTok(v) == CASE v.t = "num" -> [t |-> "num", x |-> v.n]
               [] v.t = "str" -> [t |-> "str", x |-> CpsStr(v.s)]
               [] v.t = "bool" -> Kw(IF v.b THEN "true" ELSE "false")
               [] v.t = "nil" -> Kw("nil")

RECURSIVE Yield(_)
RECURSIVE Sep(_, _)   \* yields of a sequence of expressions separated by a token
Sep(es, sep) == IF es = <<>> THEN <<>> ELSE IF Len(es) = 1 THEN Yield(es[1]) ELSE Yield(es[1]) \o <<sep>> \o Sep(Tail(es), sep)
RECURSIVE YieldAll(_)
YieldAll(ss) == IF ss = <<>> THEN <<>> ELSE Yield(ss[1]) \o YieldAll(Tail(ss))
RECURSIVE PropsY(_, _)
PropsY(ks, es) == IF ks = <<>> THEN <<>>
                  ELSE <<IdT(ks[1]), Op(":")>> \o Yield(es[1]) \o (IF Len(ks) > 1 THEN <<Op(",")>> \o PropsY(Tail(ks), Tail(es)) ELSE <<>>)
LnOf(s) == IF s.ln > 0 THEN <<LnT(s.ln)>> ELSE <<>>
VarY(v) == <<IdT(v.name)>> \o (IF IsNone(v.c[1]) THEN <<>> ELSE <<Op("=")>> \o Yield(v.c[1]))
RECURSIVE VarsY(_)
VarsY(vs) == IF Len(vs) = 1 THEN VarY(vs[1]) ELSE VarY(vs[1]) \o <<Op(",")>> \o VarsY(Tail(vs))
LogTok(t) == IF t.sp = "sym" THEN Op(IF t.op = "or" THEN "||" ELSE "&&") ELSE Kw(t.op)

Yield(t) ==
  CASE t.k = "none" -> <<>>
    [] t.k = "lit"  -> <<LitTok(t.v)>>
    [] t.k = "id"   -> <<IdT(t.name)>>
    [] t.k = "grp"  -> <<Op("(")>> \o Yield(t.c[1]) \o <<Op(")")>>
    [] t.k = "un"   -> <<Op(t.op)>> \o Yield(t.c[1])
    [] t.k = "bin"  -> Yield(t.c[1]) \o <<Op(t.op)>> \o Yield(t.c[2])
    [] t.k = "log"  -> Yield(t.c[1]) \o <<LogTok(t)>> \o Yield(t.c[2])
    [] t.k = "asg"  -> <<IdT(t.name), Op("=")>> \o Yield(t.c[1])
    [] t.k = "iasg" -> Yield(t.c[1]) \o <<Op("[")>> \o Yield(t.c[2]) \o <<Op("]"), Op("=")>> \o Yield(t.c[3])
    [] t.k = "pasg" -> Yield(t.c[1]) \o <<Op("."), IdT(t.name), Op("=")>> \o Yield(t.c[2])
    [] t.k = "call" -> Yield(t.c[1]) \o <<Op("(")>> \o Sep(Tail(t.c), Op(",")) \o <<Op(")")>>
    [] t.k = "idx"  -> Yield(t.c[1]) \o <<Op("[")>> \o Yield(t.c[2]) \o <<Op("]")>>
    [] t.k = "prop" -> Yield(t.c[1]) \o <<Op("."), IdT(t.name)>>
    [] t.k = "arr"  -> <<Op("[")>> \o Sep(t.c, Op(",")) \o <<Op("]")>>
    [] t.k = "obj"  -> <<Op("{")>> \o PropsY(t.keys, t.c) \o <<Op("}")>>
    [] t.k = "expr" -> LnOf(t) \o Yield(t.c[1]) \o <<Op(";")>>
    [] t.k = "print" -> LnOf(t) \o <<Kw("print")>> \o Yield(t.c[1]) \o <<Op(";")>>
    [] t.k = "var"  -> LnOf(t) \o <<Kw("var")>> \o VarY(t) \o <<Op(";")>>
    [] t.k = "varlist" -> LnOf(t) \o <<Kw("var")>> \o VarsY(t.c) \o <<Op(";")>>
    [] t.k = "block" -> LnOf(t) \o <<Op("{")>> \o YieldAll(t.c) \o <<Op("}")>>
    [] t.k = "if"   -> LnOf(t) \o <<Kw("if"), Op("(")>> \o Yield(t.c[1]) \o <<Op(")")>> \o Yield(t.c[2])
                       \o (IF IsNone(t.c[3]) THEN <<>> ELSE <<Kw("else")>> \o Yield(t.c[3]))
    [] t.k = "while" -> LnOf(t) \o <<Kw("while"), Op("(")>> \o Yield(t.c[1]) \o <<Op(")")>> \o Yield(t.c[2])
    [] t.k = "for"  -> LnOf(t) \o <<Kw("for"), Op("(")>>
                       \o (IF IsNone(t.c[1]) THEN <<Op(";")>> ELSE Yield(t.c[1]))       \* the initialiser brings its own ';'
                       \o Yield(t.c[2]) \o <<Op(";")>> \o Yield(t.c[3]) \o <<Op(")")>> \o Yield(t.c[4])
    [] t.k = "break" -> LnOf(t) \o <<Kw("break"), Op(";")>>
    [] t.k = "continue" -> LnOf(t) \o <<Kw("continue"), Op(";")>>
    [] t.k = "return" -> LnOf(t) \o <<Kw("return")>> \o Yield(t.c[1]) \o <<Op(";")>>
    [] t.k = "fun"  -> LnOf(t) \o <<Kw("fun"), IdT(t.name), Op("(")>> \o Sep([i \in 1..Len(t.params) |-> Id(t.params[i])], Op(","))
                       \o <<Op(")"), Op("{")>> \o YieldAll(t.c) \o <<Op("}")>>
    [] t.k = "prog" -> YieldAll(t.c)

TokStr(tk) == CASE tk.t = "op" -> tk.x [] tk.t = "kw" -> "K:" \o tk.x [] tk.t = "id" -> "I:" \o tk.x
                [] tk.t = "num" -> "N:" \o tk.x [] tk.t = "str" -> "S:" \o tk.x [] tk.t = "ln" -> "L:" \o tk.x
Compact(toks) == [i \in 1..Len(toks) |-> TokStr(toks[i])]

(* ---- parenthesisation ---- *)
RECURSIVE Strip(_)
Strip(t) == IF t.k = "grp" THEN Strip(t.c[1])
            ELSE IF t.k \in {"none","lit","id","break","continue"} THEN t
            ELSE [t EXCEPT !.c = [i \in 1..Len(t.c) |-> Strip(t.c[i])]]

G(e, need) == IF Lvl(e) >= need THEN e ELSE Grp(e)      \* wrap when the child is too loose for its position

(* An expression statement, a bare `expr ;` for-initialiser, must not start with `{` (block!); object literals there
   are wrapped too.  StartsWithBrace looks at the leftmost token of the yield. *)
RECURSIVE Leftmost(_)
Leftmost(e) == IF e.k \in {"bin","log","call","idx","prop","iasg","pasg"} THEN Leftmost(e.c[1]) ELSE e

RECURSIVE MinParen(_)
MPAll(s) == [i \in 1..Len(s) |-> MinParen(s[i])]
CloseIf(s) == IF OpenIf(s) THEN [k |-> "block", ln |-> 0, c |-> <<s>>] ELSE s
MinParen(t) ==
  CASE t.k \in {"none","lit","id","break","continue"} -> t
    [] t.k = "un"   -> [t EXCEPT !.c = <<G(MinParen(t.c[1]), 13)>>]
    [] t.k \in {"bin","log"} -> [t EXCEPT !.c = <<G(MinParen(t.c[1]), Lvl(t)), G(MinParen(t.c[2]), Lvl(t) + 1)>>]
    [] t.k = "iasg" -> [t EXCEPT !.c = <<G(MinParen(t.c[1]), 14), MinParen(t.c[2]), MinParen(t.c[3])>>]
    [] t.k = "pasg" -> [t EXCEPT !.c = <<G(MinParen(t.c[1]), 14), MinParen(t.c[2])>>]
    [] t.k \in {"call","idx","prop"} -> [t EXCEPT !.c = <<G(MinParen(t.c[1]), 14)>> \o MPAll(Tail(t.c))]
    [] t.k = "expr" -> LET e == MinParen(t.c[1]) IN [t EXCEPT !.c = <<IF Leftmost(e).k = "obj" THEN Grp(e) ELSE e>>]
    [] t.k = "if"   -> LET th == MinParen(t.c[2]) IN
                       [t EXCEPT !.c = <<MinParen(t.c[1]), IF IsNone(t.c[3]) THEN th ELSE CloseIf(th), MinParen(t.c[3])>>]
    [] OTHER -> [t EXCEPT !.c = MPAll(t.c)]

(* fully parenthesised: every operand of every operator, every argument, index, element, condition ... is grouped *)
RECURSIVE FullParen(_)
FPE(e) == IF e.k = "none" THEN e ELSE Grp(FullParen(e))
FPAll(s) == [i \in 1..Len(s) |-> FPE(s[i])]
FullParen(t) ==
  CASE t.k \in {"none","lit","id","break","continue"} -> t
    [] t.k \in {"un","bin","log","asg","arr","obj","grp"} -> [t EXCEPT !.c = FPAll(t.c)]
    [] t.k \in {"call","idx","prop","iasg","pasg"} -> [t EXCEPT !.c = <<G(FullParen(t.c[1]), 15)>> \o FPAll(Tail(t.c))]
    [] t.k \in {"expr","print","return","var"} -> [t EXCEPT !.c = FPAll(t.c)]
    [] t.k = "if" -> [t EXCEPT !.c = <<FPE(t.c[1]), FullParen(t.c[2]), FullParen(t.c[3])>>]
    [] t.k = "while" -> [t EXCEPT !.c = <<FPE(t.c[1]), FullParen(t.c[2])>>]
    [] t.k = "for" -> [t EXCEPT !.c = <<FullParen(t.c[1]), FPE(t.c[2]), FPE(t.c[3]), FullParen(t.c[4])>>]
    [] OTHER -> [t EXCEPT !.c = [i \in 1..Len(t.c) |-> FullParen(t.c[i])]]

(* ---- layout: one line per simple statement / per header, strictly increasing in source order ---- *)
(* Layout(t, n) = <<t with ln fields set, next free line>>; `gap` extra blank lines may be requested by the family
   through the node attribute `pad` (absent = 0). *)
RECURSIVE Layout(_, _)
RECURSIVE LayoutSeq(_, _, _)
LayoutSeq(ss, n, acc) == IF ss = <<>> THEN <<acc, n>>
                         ELSE LET r == Layout(ss[1], n) IN LayoutSeq(Tail(ss), r[2], Append(acc, r[1]))
Layout(t, n) ==
  IF ~IsStmt(t) THEN <<t, n>>
  ELSE CASE t.k \in {"expr","print","var","varlist","break","continue","return"} -> <<[t EXCEPT !.ln = n], n + 1>>
         [] t.k \in {"block","fun"} -> LET r == LayoutSeq(t.c, n + 1, <<>>) IN <<[t EXCEPT !.ln = n, !.c = r[1]], r[2] + 1>>
         [] t.k = "if" -> LET a == Layout(t.c[2], n + 1)  b == Layout(t.c[3], a[2]) IN
                          <<[t EXCEPT !.ln = n, !.c = <<t.c[1], a[1], b[1]>>], b[2]>>
         [] t.k = "while" -> LET a == Layout(t.c[2], n + 1) IN <<[t EXCEPT !.ln = n, !.c = <<t.c[1], a[1]>>], a[2]>>
         [] t.k = "for" -> LET i == IF IsNone(t.c[1]) THEN t.c[1] ELSE [t.c[1] EXCEPT !.ln = 0]    \* the initialiser shares the header line
                               a == Layout(t.c[4], n + 1) IN
                           <<[t EXCEPT !.ln = n, !.c = <<i, t.c[2], t.c[3], a[1]>>], a[2]>>
LayoutProg(ss, first) == Prog(LayoutSeq(ss, first, <<>>)[1])

(* "a fresh value per site": the placeholder Fresh is replaced by the source line of the statement it occurs in *)
Fresh == [k |-> "lit", v |-> [t |-> "str", s |-> <<63, 63>>], c |-> <<>>]
RECURSIVE TagFresh(_, _)
TagFresh(t, l) == IF t.k = "none" THEN t
                  ELSE IF t = Fresh THEN [k |-> "lit", v |-> [t |-> "num", n |-> FromInt(l)], c |-> <<>>]
                  ELSE IF t.c = <<>> THEN t
                  ELSE LET l2 == IF IsStmt(t) /\ t.ln > 0 THEN t.ln ELSE l IN [t EXCEPT !.c = [i \in 1..Len(t.c) |-> TagFresh(t.c[i], l2)]]
FreshProg(ss, first) == TagFresh(LayoutProg(ss, first), 0)
=============================================================================
