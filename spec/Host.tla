------------------------------- MODULE Host -------------------------------
(***************************************************************************)
(* Host primitives of the Borno specification.  TLC has neither floats,    *)
(* 64-bit integers nor Unicode tables; the *rules* of the language are in  *)
(* TLA+ and only the arithmetic of the number domain, decimal conversion,  *)
(* Unicode normalisation and JSON emission are delegated to the Java class *)
(* tlc2.module.Host (same mechanism as TLC's Integers and Sequences).      *)
(*                                                                         *)
(* Numbers are canonical strings: "NaN" "Inf" "-Inf" "0" "-0", otherwise   *)
(* [-]<m>e<x> (integer mantissa m with the shortest round-tripping digits, *)
(* no trailing zeros, value m*10^x), and "i:<dec>" for an int64 that no    *)
(* double holds exactly.  Two canonical strings are equal iff they denote  *)
(* the same datum, so TLA+ "=" is identity of numbers.                     *)
(*                                                                         *)
(* The bodies below are place-holders, overridden by the Java class; the   *)
(* ASSUMEs at the end are sanity laws TLC evaluates at start-up, so that a *)
(* broken override cannot silently become the oracle.                      *)
(***************************************************************************)
EXTENDS Integers, Sequences, TLC

Dec(s)        == s    \* decimal text (TLA+ string) -> canonical number
FromInt(n)    == "0"  \* TLC integer -> canonical number
FitsInt(x)    == TRUE \* integral and |x| <= 10^9
ToInt(x)      == 0    \* canonical number -> TLC integer (when FitsInt)
FAdd(a, b)    == a
FSub(a, b)    == a
FMul(a, b)    == a
FDiv(a, b)    == a
FMod(a, b)    == a    \* sign of the dividend (C fmod)
FPow(a, b)    == a    \* IEEE 754-2008 9.2.1 special cases, StrictMath.pow otherwise
FNeg(a)       == a
FLt(a, b)     == TRUE
FLe(a, b)     == TRUE
FEq(a, b)     == TRUE \* numeric equality (NaN # NaN, 0 = -0)
IsNaN(a)      == TRUE
IsInf(a)      == TRUE
IsZero(a)     == TRUE
IsIntegral(a) == TRUE
UlpDist(a, b) == 0
HasI64(a)     == TRUE \* integral and within [-2^63, 2^63)
I64Neg(a)     == TRUE
BAnd(a, b)    == a
BOr(a, b)     == a
BXor(a, b)    == a
BNot(a)       == a
Shl(a, b)     == a    \* b >= 0; b >= 64 gives 0
Shr(a, b)     == a    \* arithmetic; b >= 64 gives 0 or -1
IsWideInt(a)  == TRUE
Sqrt(a)       == a
Abs(a)        == a
Round(a)      == a    \* half away from zero, exact
Sin(a)        == a
Cos(a)        == a
Tan(a)        == a
Digits(a)     == [neg |-> FALSE, ds |-> <<0>>, dp |-> 1] \* |a| = 0.d1..dn * 10^dp, shortest digits
Bits(a)       == a    \* 16 hex digits
ParseLit(t)   == "0"  \* ASCII digits with at most one point -> nearest double (ties to even) | "OVERFLOW"
Rand(s, i)    == "0"  \* deterministic pseudo-random doubles
RandInt(s, i, n) == 0 \* deterministic pseudo-random integer in 0..n-1
SeedProp      == 1  \* the integer given by -Dverif.seed (VERIF_SEED)
HalfwayText(a, bump) == <<48>>
NFC(cps)      == cps
NFD(cps)      == cps
StrCps(s)     == <<>> \* TLA+ string -> code points
CpsStr(cps)   == ""   \* code points -> TLA+ string
IntStr(n)     == ""
Emit(v)       == TRUE \* append v as one JSON line to the file -Dverif.out
ToJsonStr(v)  == ""

---------------------------------------------------------------------------
One == Dec("1")  Two == Dec("2")  Three == Dec("3")

ASSUME FAdd(One, Two) = Three
ASSUME FAdd(Dec("0.1"), Dec("0.2")) = Dec("0.30000000000000004")
ASSUME FAdd(Two, One) = FAdd(One, Two)
ASSUME FDiv(One, Dec("0")) = "Inf" /\ FDiv(Dec("-1"), Dec("0")) = "-Inf" /\ IsNaN(FDiv(Dec("0"), Dec("0")))
ASSUME FMod(Dec("-7"), Three) = Dec("-1") /\ FMod(Dec("7"), Dec("-3")) = One
ASSUME FPow(One, "NaN") = One /\ FPow(Dec("-1"), "Inf") = One /\ FPow(Two, Dec("10")) = Dec("1024")
ASSUME FNeg("0") = "-0" /\ FEq("0", "-0") /\ "0" # "-0" /\ ~FEq("NaN", "NaN")
ASSUME Dec("1e0") = One /\ Dec("1.50") = "15e-1" /\ Dec("1000000") = "1e6" /\ Dec("9007199254740993") = Dec("9007199254740992")
ASSUME ParseLit(<<49, 46, 53>>) = "15e-1"
ASSUME ParseLit(<<49>> \o [i \in 1..309 |-> 48]) = "OVERFLOW"
ASSUME BAnd(Dec("7"), Three) = Three /\ BNot(Dec("0")) = Dec("-1") /\ Shl(One, Dec("62")) = Dec("4611686018427387904")
ASSUME Shl(One, Dec("63")) = Dec("-9223372036854775808") /\ Shl(One, Dec("64")) = "0" /\ Shr(Dec("-8"), Dec("70")) = Dec("-1")
ASSUME BOr(Dec("9007199254740992"), One) = "i:9007199254740993" /\ IsWideInt("i:9007199254740993")
ASSUME HasI64(Dec("-9223372036854775808")) /\ ~HasI64(Dec("9223372036854775808")) /\ ~HasI64(Dec("0.5")) /\ ~HasI64("NaN")
ASSUME Round(Dec("0.49999999999999994")) = "0" /\ Round(Dec("2.5")) = Three /\ Round(Dec("-2.5")) = Dec("-3")
ASSUME Round(Dec("4503599627370497.5")) = Dec("4503599627370498") /\ Round(Dec("-0.4")) = "-0"
ASSUME Sqrt(Dec("2")) = Dec("1.4142135623730951") /\ Abs("-0") = "0" /\ IsNaN(Sqrt(Dec("-1")))
ASSUME Digits(Dec("1048576")) = [neg |-> FALSE, ds |-> <<1,0,4,8,5,7,6>>, dp |-> 7]
ASSUME Digits(Dec("-0.001")) = [neg |-> TRUE, ds |-> <<1>>, dp |-> -2]
ASSUME Digits(Dec("5e-324")).ds = <<5>> /\ Digits(Dec("1.7976931348623157e308")).dp = 309
ASSUME NFC(<<2479, 2492>>) = <<2479, 2492>>   \* U+09AF U+09BC: U+09DF is a composition exclusion
ASSUME NFC(<<2527>>) = <<2479, 2492>>         \* U+09DF decomposes and stays decomposed
ASSUME NFC(<<2503, 2494>>) = <<2507>> /\ NFD(<<2507>>) = <<2503, 2494>>
ASSUME StrCps("ab") = <<97, 98>> /\ CpsStr(<<97, 98>>) = "ab"
ASSUME FitsInt(Three) /\ ToInt(Three) = 3 /\ FromInt(3) = Three /\ ~FitsInt(Dec("0.5")) /\ ~FitsInt("NaN")
ASSUME Bits(One) = "3ff0000000000000" /\ Bits("-0") = "8000000000000000"
=============================================================================
