---------------------------- MODULE BornoTokens ----------------------------
(* Pinned spellings (Unicode code points) of Borno's 15 keywords, the 17 built-in names and the one
   extra reserved word, copied from README.md / grammer.txt.  ASCII-only module: TLC's output is not
   UTF-8.  NB: ELSE and CONTINUE contain the precomposed U+09DF (2527), as the documentation spells them. *)
EXTENDS Integers, Sequences, TLC

Keyword ==
  "FUN" :> <<2475, 2494, 2434, 2486, 2472>> @@
  "VAR" :> <<2471, 2480, 2495>> @@
  "FOR" :> <<2475, 2480>> @@
  "IF" :> <<2479, 2470, 2495>> @@
  "ELSE" :> <<2472, 2494, 2489, 2527>> @@
  "WHILE" :> <<2479, 2468, 2453, 2509, 2487, 2467>> @@
  "TRUE" :> <<2488, 2468, 2509, 2479>> @@
  "FALSE" :> <<2478, 2495, 2469, 2509, 2479, 2494>> @@
  "NIL" :> <<110, 105, 108>> @@
  "PRINT" :> <<2470, 2503, 2454, 2494, 2451>> @@
  "RETURN" :> <<2475, 2503, 2480, 2468>> @@
  "BREAK" :> <<2469, 2494, 2478, 2507>> @@
  "CONTINUE" :> <<2458, 2494, 2482, 2495, 2527, 2503, 95, 2479, 2494, 2451>> @@
  "LOGICAL_AND" :> <<2447, 2476, 2434>> @@
  "LOGICAL_OR" :> <<2476, 2494>>
KeywordTypes == DOMAIN Keyword

(* built-in name (symbolic, as used inside the specification) |-> spelling *)
Builtin ==
  "clock" :> <<2453, 2509, 2482, 2453>> @@
  "len" :> <<2482, 2503, 2472>> @@
  "push" :> <<2447, 2465>> @@
  "remove" :> <<2480, 2495, 2478, 2497, 2477>> @@
  "delkey" :> <<2453, 2495, 95, 2480, 2495, 2478, 2497, 2477>> @@
  "keys" :> <<2437, 2476, 2509, 2460, 2503, 2453, 2509, 2463, 95, 2453, 2495>> @@
  "values" :> <<2437, 2476, 2509, 2460, 2503, 2453, 2509, 2463, 95, 2478, 2494, 2472>> @@
  "abs" :> <<2474, 2480, 2478, 2478, 2494, 2472>> @@
  "sqrt" :> <<2476, 2480, 2509, 2455, 2478, 2498, 2482>> @@
  "pow" :> <<2456, 2494, 2468>> @@
  "sin" :> <<2488, 2494, 2439, 2472>> @@
  "cos" :> <<2453, 2488, 2494, 2439, 2472>> @@
  "tan" :> <<2463, 2509, 2479, 2494, 2472>> @@
  "min" :> <<2488, 2480, 2509, 2476, 2472, 2495, 2478, 2509, 2472>> @@
  "max" :> <<2488, 2480, 2509, 2476, 2507, 2458, 2509, 2458>> @@
  "round" :> <<2480, 2494, 2441, 2472, 2509, 2465>> @@
  "input" :> <<2439, 2472, 2474, 2497, 2463>>
BuiltinNames == DOMAIN Builtin
ReservedExtra == <<105, 110, 112, 117, 116>>  \* the ASCII word "input": reserved by the parser, not a built-in
Reserved == {Builtin[b] : b \in BuiltinNames} \cup {ReservedExtra}

(* Unicode general categories of the code points that occur in the spellings above (L* = letter, M* = mark) *)
SpellingLetters == {105, 108, 110, 112, 116, 117, 2437, 2439, 2441, 2447, 2451, 2453, 2454, 2455, 2456, 2458, 2460, 2463, 2465, 2467, 2468, 2469, 2470, 2471, 2472, 2474, 2475, 2476, 2477, 2478, 2479, 2480, 2482, 2486, 2487, 2488, 2489, 2527}
SpellingMarks == {2434, 2494, 2495, 2497, 2498, 2503, 2507, 2509}
=============================================================================
