----------------------------- MODULE BornoFront -----------------------------
(* The front end as one function: text -> tokens (BornoLex, declarative) -> tree (BornoGrammar), with the rule of
   main.run: nothing is interpreted when lexing or parsing reported an error.  Used by the process / REPL model
   (BornoCLI) and by the families that start from source TEXT rather than from trees. *)
EXTENDS BornoLexDecl, BornoGrammar

KwName(ty) == CASE ty = "FUN" -> "fun" [] ty = "VAR" -> "var" [] ty = "FOR" -> "for" [] ty = "IF" -> "if" [] ty = "ELSE" -> "else" [] ty = "WHILE" -> "while"
                [] ty = "TRUE" -> "true" [] ty = "FALSE" -> "false" [] ty = "NIL" -> "nil" [] ty = "PRINT" -> "print" [] ty = "RETURN" -> "return"
                [] ty = "BREAK" -> "break" [] ty = "CONTINUE" -> "continue" [] ty = "LOGICAL_AND" -> "and" [] ty = "LOGICAL_OR" -> "or"
SymName(lex) == IF \E b \in BuiltinNames : Builtin[b] = lex THEN CHOOSE b \in BuiltinNames : Builtin[b] = lex
                ELSE IF lex = ReservedExtra THEN "input_ascii" ELSE CpsStr(lex)
GTok(tk) == CASE tk.ty = "IDENTIFIER" -> IdT(SymName(tk.lex))
              [] tk.ty = "NUMBER" -> [t |-> "num", x |-> tk.lit.n]
              [] tk.ty = "STRING" -> [t |-> "str", x |-> CpsStr(tk.lit.s)]
              [] tk.ty \in KeywordTypes /\ tk.lex \in { Keyword[k] : k \in KeywordTypes } -> Kw(KwName(tk.ty))
              [] OTHER -> Op(CpsStr(tk.lex))

(* every statement of the tree gets the line of its first token (trees built by Parse carry ln = 0) *)
NTok(t) == Len(SelectSeq(Yield(t), LAMBDA k : k.t # "ln"))
RECURSIVE Relabel(_, _, _)
RECURSIVE RelabelSeq(_, _, _, _)
RelabelSeq(cs, lines, i, acc) == IF cs = <<>> THEN acc ELSE RelabelSeq(Tail(cs), lines, i + NTok(Head(cs)), Append(acc, Relabel(Head(cs), lines, i)))
(* offsets of the children of a node inside its own yield *)
Relabel(t, lines, i) ==
  IF t.k = "none" \/ ~IsStmt(t) THEN t
  ELSE LET me == [t EXCEPT !.ln = lines[i]] IN
       CASE t.k \in {"block"} -> [me EXCEPT !.c = RelabelSeq(t.c, lines, i + 1, <<>>)]
         [] t.k = "fun" -> [me EXCEPT !.c = RelabelSeq(t.c, lines, i + 4 + (IF t.params = <<>> THEN 0 ELSE 2 * Len(t.params) - 1) + 1, <<>>)]
         [] t.k = "if" -> LET a == i + 2 + NTok(t.c[1]) + 1  b == a + NTok(t.c[2]) + 1 IN
                          [me EXCEPT !.c = <<t.c[1], Relabel(t.c[2], lines, a), Relabel(t.c[3], lines, b)>>]
         [] t.k = "while" -> [me EXCEPT !.c = <<t.c[1], Relabel(t.c[2], lines, i + 2 + NTok(t.c[1]) + 1)>>]
         [] t.k = "for" -> LET initN == IF IsNone(t.c[1]) THEN 1 ELSE NTok(t.c[1]) IN
                           [me EXCEPT !.c = <<t.c[1], t.c[2], t.c[3], Relabel(t.c[4], lines, i + 2 + initN + NTok(t.c[2]) + 1 + NTok(t.c[3]) + 1)>>]
         [] OTHER -> me
FrontEnd(src) ==
  LET lx == Tokens(src)
      g == [i \in 1..(Len(lx.toks) - 1) |-> GTok(lx.toks[i])]
      lines == [i \in 1..Len(lx.toks) |-> lx.toks[i].ln]
      r == Parse(g) IN
  IF lx.diags # <<>> THEN [accept |-> FALSE, lexerr |-> TRUE, line |-> lx.diags[1], ndiag |-> Len(lx.diags)]
  ELSE IF r.ok THEN [accept |-> TRUE, tree |-> Prog(RelabelSeq(r.t.c, lines, 1, <<>>))]
  ELSE [accept |-> FALSE, lexerr |-> FALSE, line |-> lx.toks[r.at].ln, ndiag |-> 1]
=============================================================================
