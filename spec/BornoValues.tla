---------------------------- MODULE BornoValues ----------------------------
(***************************************************************************)
(* The runtime value domain of Borno and its pure operations: truthiness,  *)
(* equality, the unary/binary operator tables, the text of a value, and    *)
(* the pure parts of the built-ins (C02, C14, C15, C16, C17, C10-coercion).*)
(*                                                                         *)
(* One canonical representation per datum: exactly one number type and one *)
(* string type.  Origin-independence (C16) is therefore true by            *)
(* construction here; any origin-dependence of the implementation shows up *)
(* as a replay mismatch.                                                   *)
(*                                                                         *)
(* Operations return  [r |-> "val", v |-> value]                           *)
(*                 |  [r |-> "err", kind |-> k]      (a runtime error)     *)
(*                 |  [r |-> "unspec", why |-> w]    (behaviour the        *)
(*                       documentation leaves open; execution stops being  *)
(*                       judged there)                                     *)
(***************************************************************************)
EXTENDS Integers, Sequences, FiniteSets, Host

VNil        == [t |-> "nil"]
VBool(b)    == [t |-> "bool", b |-> b]
VNum(n)     == [t |-> "num", n |-> n]
VStr(s)     == [t |-> "str", s |-> s]
VArr(r)     == [t |-> "arr", r |-> r]
VObj(r)     == [t |-> "obj", r |-> r]
VFn(r)      == [t |-> "fn", r |-> r]
VNat(name)  == [t |-> "nat", name |-> name]
VAnyBool    == [t |-> "anybool"]                  \* a boolean whose value the documentation does not fix
VApprox(n, u, src) == [t |-> "approx", n |-> n, ulps |-> u, src |-> src]  \* a number known only to the accuracy of the platform's
                                                                           \* math library; src = the operation and arguments that produced it
N(i)        == VNum(FromInt(i))
D(s)        == VNum(Dec(s))
S(s)        == VStr(StrCps(s))

Val(v)      == [r |-> "val", v |-> v]
Err(k)      == [r |-> "err", kind |-> k]
Unspec(w)   == [r |-> "unspec", why |-> w]

IsRef(v)    == v.t \in {"arr", "obj", "fn"}
Vague(v)    == v.t \in {"anybool", "approx"}

(* ---- truthiness: nil, false, 0 (either sign) and "" are falsy, everything else truthy (NaN too) ---- *)
Truthy(v) == CASE v.t = "nil" -> FALSE
               [] v.t = "bool" -> v.b
               [] v.t = "num" -> ~IsZero(v.n)
               [] v.t = "str" -> v.s # <<>>
               [] OTHER -> TRUE

(* ---- text of a number: shortest round-tripping digits; exponent form iff exponent < -4 or >= 6 ---- *)
Zeros(n) == [i \in 1..n |-> 48]
DigitsCps(ds) == [i \in 1..Len(ds) |-> 48 + ds[i]]
RECURSIVE NatCps(_)
NatCps(n) == IF n < 10 THEN <<48 + n>> ELSE NatCps(n \div 10) \o <<48 + (n % 10)>>
NumText(n) ==
  IF n = "NaN" THEN StrCps("NaN") ELSE IF n = "Inf" THEN StrCps("+Inf") ELSE IF n = "-Inf" THEN StrCps("-Inf")
  ELSE LET d == Digits(n)  nd == Len(d.ds)  x == d.dp - 1  sign == IF d.neg THEN <<45>> ELSE <<>>  dc == DigitsCps(d.ds) IN
       IF IsWideInt(n) THEN sign \o dc
       ELSE IF x < -4 \/ x >= 6
       THEN sign \o <<dc[1]>> \o (IF nd > 1 THEN <<46>> \o SubSeq(dc, 2, nd) ELSE <<>>) \o <<101>>
            \o (IF x < 0 THEN <<45>> ELSE <<43>>)
            \o (LET ax == IF x < 0 THEN -x ELSE x IN IF ax < 10 THEN <<48>> \o NatCps(ax) ELSE NatCps(ax))
       ELSE IF d.dp <= 0 THEN sign \o <<48, 46>> \o Zeros(-d.dp) \o dc
       ELSE IF d.dp >= nd THEN sign \o dc \o Zeros(d.dp - nd)
       ELSE sign \o SubSeq(dc, 1, d.dp) \o <<46>> \o SubSeq(dc, d.dp + 1, nd)

(* a non-negative finite number as a source literal: plain decimal, no exponent *)
LiteralText(n) == LET d == Digits(n)  nd == Len(d.ds)  dc == DigitsCps(d.ds) IN
                  IF d.dp <= 0 THEN <<48, 46>> \o Zeros(-d.dp) \o dc
                  ELSE IF d.dp >= nd THEN dc \o Zeros(d.dp - nd)
                  ELSE SubSeq(dc, 1, d.dp) \o <<46>> \o SubSeq(dc, d.dp + 1, nd)

(* ---- strings that look like a numeric literal (either digit script): the unspecified coercion cell ---- *)
IsDigitCp(c) == c \in 48..57 \/ c \in 2534..2543
LooksNumeric(s) == /\ Len(s) >= 1
                   /\ \E k \in 1..Len(s) : /\ \A i \in 1..k : IsDigitCp(s[i])
                                            /\ \/ k = Len(s)
                                               \/ k + 2 <= Len(s) /\ s[k+1] = 46 /\ \A j \in (k+2)..Len(s) : IsDigitCp(s[j])

(* A string that Go-style float parsing might accept (sign, then a digit, a point, or the start of inf/nan): whether such a
   string is coerced to a number is left open, so the cell is unspecified.  Every other string is definitely not a number. *)
MaybeNumeric(s) == LET t == IF Len(s) >= 1 /\ s[1] \in {43, 45} THEN Tail(s) ELSE s IN
                   Len(t) >= 1 /\ (IsDigitCp(t[1]) \/ t[1] \in {46, 105, 73, 110, 78})

(* A string with the syntax of a numeric literal (either digit script) used where a number is needed is a TWO-VALUED cell:
   the documentation does not say whether it is coerced (with the transliteration of C10) or a type error.  The
   specification continues with the coerced number and marks the result SOFT; the replay accepts either continuation
   (and C16 demands the same choice for every producer of the string).  Other strings that float parsing might accept
   ("-0", "1e5", "inf") stay unspecified. *)
Soft(res) == res @@ [soft |-> TRUE]
IsSoft(res) == "soft" \in DOMAIN res
StrNum(s) == ParseLit([i \in 1..Len(s) |-> IF s[i] \in 2534..2543 THEN s[i] - 2534 + 48 ELSE s[i]])
(* operand of an arithmetic / comparison / bitwise operator or numeric built-in *)
NumOperand(v) == CASE v.t = "num" -> Val(v.n)
                   [] v.t = "approx" -> Unspec("inexact-operand")
                   [] v.t = "anybool" -> Unspec("anybool-operand")
                   [] v.t = "str" -> (IF LooksNumeric(v.s) THEN (IF StrNum(v.s) = "OVERFLOW" THEN Unspec("numeric-string") ELSE Soft(Val(StrNum(v.s))))
                                      ELSE IF MaybeNumeric(v.s) THEN Unspec("numeric-string") ELSE Err("operand"))
                   [] OTHER -> Err("operand")
Carry(res, a, b) == IF res.r # "unspec" /\ (IsSoft(a) \/ IsSoft(b)) THEN Soft(res) ELSE res

(* ---- equality ---- *)
Eq(a, b) == IF a.t = "approx" /\ a = b THEN Val(VBool(~IsNaN(a.n)))  \* the same inexact operation on the same arguments gives the same number (NaN # NaN)
            ELSE IF Vague(a) \/ Vague(b) THEN Unspec("vague-equality")
            ELSE IF a.t # b.t THEN Val(VBool(FALSE))
            ELSE CASE a.t = "nil" -> Val(VBool(TRUE))
                   [] a.t = "bool" -> Val(VBool(a.b = b.b))
                   [] a.t = "num" -> (IF IsWideInt(a.n) # IsWideInt(b.n) /\ FLe(a.n, b.n) /\ FLe(b.n, a.n)
                                      THEN Val(VAnyBool)   \* an int64 no double holds, against the double it rounds to: "numeric value" read exactly or as doubles
                                      ELSE Val(VBool(FEq(a.n, b.n))))
                   [] a.t = "str" -> Val(VBool(a.s = b.s))
                   [] a.t = "nat" -> Val(VBool(a.name = b.name))
                   [] OTHER -> (IF a.r = b.r THEN Val(VBool(TRUE)) ELSE Val(VAnyBool))   \* two distinct references: identity or structure

(* ---- binary operators ---- *)
PowExact(a, b) == \* cases in which every correct pow gives the same double
   \/ IsNaN(a) \/ IsNaN(b) \/ IsInf(a) \/ IsInf(b) \/ IsZero(a) \/ IsZero(b) \/ a = Dec("1") \/ a = Dec("-1") \/ b = Dec("1")
   \/ /\ FitsInt(a) /\ FitsInt(b) /\ ToInt(b) >= 0 /\ ToInt(b) <= 64
      /\ LET m == IF ToInt(a) < 0 THEN -ToInt(a) ELSE ToInt(a) IN m <= 1024 /\ (m <= 1 \/ ToInt(b) * (IF m <= 2 THEN 1 ELSE IF m <= 4 THEN 2 ELSE IF m <= 16 THEN 4 ELSE IF m <= 256 THEN 8 ELSE 10) <= 52)

(* outside a moderate domain the platform's math library is only required to return some number (see DESIGN.md 3) *)
Moderate(x) == FLe(Abs(x), Dec("1048576"))
PowModerate(a, b) == Moderate(a) /\ FLe(Dec("0.00000095367431640625"), Abs(a)) /\ FLe(Abs(b), Dec("20"))

Arith(op, x, y) ==
  CASE op = "-" -> Val(VNum(FSub(x, y)))
    [] op = "*" -> Val(VNum(FMul(x, y)))
    [] op = "/" -> (IF IsZero(y) THEN Err("zero") ELSE Val(VNum(FDiv(x, y))))
    [] op = "%" -> (IF IsZero(y) THEN Err("zero") ELSE Val(VNum(FMod(x, y))))
    [] op = "**" -> (IF PowExact(x, y) THEN Val(VNum(FPow(x, y)))
                     ELSE IF PowModerate(x, y) THEN Val(VApprox(FPow(x, y), 64, <<"pow", x, y>>)) ELSE Val(VApprox(FPow(x, y), -1, <<"pow", x, y>>)))
    [] op = "<" -> Val(VBool(FLt(x, y)))
    [] op = "<=" -> Val(VBool(FLe(x, y)))
    [] op = ">" -> Val(VBool(FLt(y, x)))
    [] op = ">=" -> Val(VBool(FLe(y, x)))

Bitwise(op, x, y) ==
  IF ~HasI64(x) \/ ~HasI64(y) THEN Err("operand")
  ELSE CASE op = "&" -> Val(VNum(BAnd(x, y)))
         [] op = "|" -> Val(VNum(BOr(x, y)))
         [] op = "^" -> Val(VNum(BXor(x, y)))
         [] op = "<<" -> (IF I64Neg(y) THEN Err("shift") ELSE Val(VNum(Shl(x, y))))
         [] op = ">>" -> (IF I64Neg(y) THEN Err("shift") ELSE Val(VNum(Shr(x, y))))

BinOp(op, a, b) ==
  IF op = "==" THEN Eq(a, b)
  ELSE IF op = "!=" THEN (LET e == Eq(a, b) IN IF e.r = "val" /\ e.v.t = "bool" THEN Val(VBool(~e.v.b)) ELSE e)
  ELSE IF op = "+" THEN
       IF Vague(a) \/ Vague(b) THEN Unspec("vague-operand")
       ELSE IF a.t = "num" /\ b.t = "num" THEN Val(VNum(FAdd(a.n, b.n)))
       ELSE IF a.t = "str" /\ b.t = "str" THEN Val(VStr(a.s \o b.s))
       ELSE IF a.t = "str" /\ b.t = "num" THEN Val(VStr(a.s \o NumText(b.n)))
       ELSE IF a.t = "num" /\ b.t = "str" THEN Val(VStr(NumText(a.n) \o b.s))
       ELSE Err("operand")
  ELSE LET x == NumOperand(a)  y == NumOperand(b) IN
       \* a definite type error on either side wins over an unspecified cell on the other (left operand first)
       IF x.r = "err" THEN x ELSE IF y.r = "err" THEN y
       ELSE IF x.r # "val" THEN x ELSE IF y.r # "val" THEN y
       ELSE Carry(IF op \in {"&", "|", "^", "<<", ">>"} THEN Bitwise(op, x.v, y.v) ELSE Arith(op, x.v, y.v), x, y)

UnOp(op, a) ==
  IF op = "!" THEN (IF Vague(a) THEN Unspec("vague-operand") ELSE Val(VBool(~Truthy(a))))
  ELSE LET x == NumOperand(a) IN
       IF x.r # "val" THEN x
       ELSE Carry(IF op = "-" THEN Val(VNum(FNeg(x.v)))
                  ELSE (IF HasI64(x.v) THEN Val(VNum(BNot(x.v))) ELSE Err("operand")), x, x)       \* "~"

(* ---- pure built-ins on numbers (argument list already evaluated) ---- *)
Num1(f(_), args) == IF Len(args) # 1 THEN Err("arity")
                    ELSE LET x == NumOperand(args[1]) IN IF x.r = "err" THEN Err("native") ELSE IF x.r # "val" THEN x ELSE Carry(f(x.v), x, x)
RECURSIVE MinMaxFold(_, _, _, _)
MinMaxFold(isMin, acc, vs, soft) ==
   IF vs = <<>> THEN (IF soft THEN Soft(Val(VNum(acc))) ELSE Val(VNum(acc)))
   ELSE LET x == NumOperand(vs[1]) IN
        IF x.r = "err" THEN (IF soft THEN Soft(Err("native")) ELSE Err("native")) ELSE IF x.r # "val" THEN x
        ELSE IF IsNaN(x.v) \/ IsNaN(acc) THEN Unspec("nan-in-minmax")
        ELSE MinMaxFold(isMin, IF (isMin /\ FLt(x.v, acc)) \/ (~isMin /\ FLt(acc, x.v)) THEN x.v ELSE acc, Tail(vs), soft \/ IsSoft(x))
MinMax(isMin, vs) == \* vs: the numbers to compare (already flattened)
   IF vs = <<>> THEN Err("native")
   ELSE LET x == NumOperand(vs[1]) IN
        IF x.r = "err" THEN Err("native") ELSE IF x.r # "val" THEN x ELSE MinMaxFold(isMin, x.v, Tail(vs), IsSoft(x))

TrigExact(x) == IsNaN(x) \/ IsInf(x) \/ IsZero(x)
Builtins == {"clock","len","push","remove","delkey","keys","values","abs","sqrt","pow","sin","cos","tan","min","max","round","input"}
FixedArity == [ b \in Builtins |-> CASE b = "clock" -> 0 [] b \in {"len","keys","values","abs","sqrt","sin","cos","tan","round"} -> 1
                                     [] b \in {"remove","delkey","pow"} -> 2 [] OTHER -> -1 ]
PureNative(name, args) ==
  CASE name = "abs"   -> Num1(LAMBDA x : Val(VNum(Abs(x))), args)
    [] name = "sqrt"  -> Num1(LAMBDA x : Val(VNum(Sqrt(x))), args)
    [] name = "round" -> Num1(LAMBDA x : Val(VNum(Round(x))), args)
    [] name = "sin"   -> Num1(LAMBDA x : IF TrigExact(x) THEN Val(VNum(Sin(x))) ELSE Val(VApprox(Sin(x), IF Moderate(x) THEN 4 ELSE -1, <<"sin", x>>)), args)
    [] name = "cos"   -> Num1(LAMBDA x : IF TrigExact(x) THEN Val(VNum(Cos(x))) ELSE Val(VApprox(Cos(x), IF Moderate(x) THEN 4 ELSE -1, <<"cos", x>>)), args)
    [] name = "tan"   -> Num1(LAMBDA x : IF TrigExact(x) THEN Val(VNum(Tan(x))) ELSE Val(VApprox(Tan(x), IF Moderate(x) THEN 32 ELSE -1, <<"tan", x>>)), args)
    [] name = "pow"   -> IF Len(args) # 2 THEN Err("arity")
                         ELSE LET x == NumOperand(args[1])  y == NumOperand(args[2]) IN
                              IF x.r = "err" \/ y.r = "err" THEN Err("native")
                              ELSE IF x.r # "val" THEN x ELSE IF y.r # "val" THEN y
                              ELSE Carry(Arith("**", x.v, y.v), x, y)
=============================================================================
