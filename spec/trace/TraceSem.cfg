CONSTANTS
  ProgOf <- TraceProgOf
  MaxSteps = 400000
  TraceFile = "traces.json"
INIT Init
NEXT TraceNext
CONSTRAINT Mark
POSTCONDITION Accepted
INVARIANTS TerminalIsClassified ErrorHasCause ScopesWellFormed HeapWellFormed
PROPERTIES NoEffectAfterErrorT MonotoneT StoreLocalT OutputAppendOnlyT
CHECK_DEADLOCK FALSE
