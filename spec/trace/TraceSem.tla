------------------------------ MODULE TraceSem ------------------------------
(***************************************************************************)
(* Trace validation (code -> specification) for the abstract machine.       *)
(* TraceFile holds a sequence of recorded runs of the REAL interpreter:      *)
(*   [prog |-> tree, stdin |-> lines, repl |-> BOOLEAN, events |-> <<...>>]  *)
(* with events print / echo (the value handed to the printer), native (name, *)
(* argument count, prompt), diag (kind class, line) and end (status).        *)
(* The machine of BornoSem is re-run on the same tree: silent steps are      *)
(* free, an emitting action is allowed only together with the NEXT recorded  *)
(* event and must agree with its logged fields.  What the specification      *)
(* leaves open is resolved by the trace: the observed order of a key / value *)
(* listing fixes that object's listing order for the rest of the run, and    *)
(* an inexact number (clock, sin, ...) takes the logged value.  After the    *)
(* first diagnostic only further diagnostics can be consumed - a print,      *)
(* prompt or built-in call recorded after it has no enabled action (C06).    *)
(* Every invariant of BornoSem is evaluated at every step of every trace.    *)
(***************************************************************************)
EXTENDS BornoSem, Json, FiniteSetsExt

CONSTANT TraceFile
Runs == JsonDeserialize(TraceFile)
NRuns == Len(Runs)

VARIABLES tr,      \* index of the run being validated (NRuns + 1 = all accepted)
          l,       \* position of the next event of that run
          ord      \* listing orders fixed so far: <<object, version>> -> permutation
tracevars == <<tr, l, ord>>

TraceProgOf(i) == Runs[i].prog
Ev == Runs[tr].events[l]
HasEv == tr <= NRuns /\ l <= Len(Runs[tr].events)

KClass(k) == CASE k \in {"arity", "native"} -> "call-misuse" [] k \in {"shift", "operand"} -> "operand" [] OTHER -> k

RECURSIVE MatchPlain(_, _)
MatchPlain(s, o) ==     \* s: snapshot of the specification, o: observed value
  CASE s.t = "approx" -> o.t = "num"
    [] s.t = "anybool" -> o.t = "bool"
    [] s.t = "deep" -> TRUE
    [] s.t # o.t -> FALSE
    [] s.t = "num" -> s.n = o.n
    [] s.t = "str" -> s.s = o.s
    [] s.t = "bool" -> s.b = o.b
    [] s.t = "arr" -> Len(s.e) = Len(o.e) /\ \A i \in 1..Len(s.e) : MatchPlain(s.e[i], o.e[i])
    [] s.t = "obj" -> /\ Len(s.ks) = Len(o.ks) /\ {s.ks[i] : i \in 1..Len(s.ks)} = {o.ks[i] : i \in 1..Len(o.ks)}
                      /\ \A i \in 1..Len(s.ks) : \E j \in 1..Len(o.ks) : o.ks[j] = s.ks[i] /\ MatchPlain(s.vs[i], o.vs[j])
                      /\ \A j \in 1..Len(o.ks) : \E i \in 1..Len(s.ks) : o.ks[j] = s.ks[i] /\ MatchPlain(s.vs[i], o.vs[j])
    [] s.t \in {"fn", "nat"} -> s.name = o.name
    [] OTHER -> TRUE
Perms(n) == { p \in [1..n -> 1..n] : \A i, j \in 1..n : p[i] = p[j] => i = j }
IsListingSnap(s) == s.t = "arr" /\ "lst" \in DOMAIN s /\ Len(s.e) >= 2
(* the observed value of a print event, as the printer shows it: strings NFC-normalised *)
RECURSIVE Nfc(_)
Nfc(o) == CASE o.t = "str" -> [o EXCEPT !.s = NFC(o.s)]
            [] o.t = "arr" -> [o EXCEPT !.e = [i \in 1..Len(o.e) |-> Nfc(o.e[i])]]
            [] o.t = "obj" -> [o EXCEPT !.vs = [i \in 1..Len(o.vs) |-> Nfc(o.vs[i])], !.ks = [i \in 1..Len(o.ks) |-> CpsStr(NFC(StrCps(o.ks[i])))]]
            [] OTHER -> o

Init == /\ tr = 1 /\ l = 1 /\ ord = <<>>
        /\ IF NRuns = 0 THEN InitSem(1, <<>>, FALSE) ELSE InitSem(1, Runs[1].stdin, Runs[1].repl)

Quiet2 == out' = out /\ diags' = diags /\ natlog' = natlog
Silent == /\ status = "run" /\ SemStep /\ Quiet2 /\ status' \in {"run", "done", "unspec"} /\ UNCHANGED tracevars
PrintEv == /\ HasEv /\ Ev.ev \in {"print", "echo"} /\ status = "run"
           /\ SemStep /\ diags' = diags /\ natlog' = natlog /\ Len(out') = Len(out) + 1
           /\ LET rec == out'[Len(out')]  o == IF Ev.ev = "print" THEN Nfc(Ev.v) ELSE Ev.v IN
              /\ rec.t = Ev.ev
              /\ IF IsListingSnap(rec.v)
                 THEN LET key == <<rec.v.lst.of, rec.v.lst.ver>>  n == Len(rec.v.e) IN
                      /\ o.t = "arr" /\ Len(o.e) = n
                      /\ \E p \in Perms(n) :
                           /\ \A i \in 1..n : MatchPlain(rec.v.e[p[i]], o.e[i])
                           /\ (key \in DOMAIN ord => ord[key] = p)
                           /\ ord' = (key :> p) @@ ord
                 ELSE MatchPlain(rec.v, o) /\ ord' = ord
           /\ l' = l + 1 /\ tr' = tr
NativeEv == /\ HasEv /\ Ev.ev = "native" /\ status = "run"
            /\ SemStep /\ Len(natlog') = Len(natlog) + 1 /\ natlog'[Len(natlog')].name = Ev.name /\ natlog'[Len(natlog')].nargs = Ev.nargs
            /\ IF Len(out') = Len(out) + 1 THEN out'[Len(out')].t = "prompt" /\ Ev.hasprompt /\ out'[Len(out')].s = Ev.prompt ELSE out' = out
            /\ IF diags' = diags THEN l' = l + 1
               ELSE /\ l + 1 <= Len(Runs[tr].events) /\ Runs[tr].events[l + 1].ev = "diag"       \* the built-in failed: its diagnostic is the next event
                    /\ KClass(diags'[1].kind) = Runs[tr].events[l + 1].kind
                    /\ (diags'[1].ln = 0 \/ diags'[1].ln = Runs[tr].events[l + 1].ln)
                    /\ l' = l + 2
            /\ UNCHANGED <<tr, ord>>
DiagEv == /\ HasEv /\ Ev.ev = "diag" /\ status = "run"
          /\ SemStep /\ natlog' = natlog /\ out' = out /\ Len(diags') = 1
          /\ (Ev.kind = "unclassified" \/ KClass(diags'[1].kind) = Ev.kind) /\ (diags'[1].ln = 0 \/ diags'[1].ln = Ev.ln)
          /\ l' = l + 1 /\ UNCHANGED <<tr, ord>>
LaterDiag == /\ HasEv /\ Ev.ev = "diag" /\ status = "error" /\ UNCHANGED semvars /\ l' = l + 1 /\ UNCHANGED <<tr, ord>>
(* end of a run: the statuses agree; a run the specification stops judging ("unspec") is abandoned here *)
EndEv == /\ tr <= NRuns
         /\ \/ HasEv /\ Ev.ev = "end" /\ status = Ev.status /\ l = Len(Runs[tr].events)
            \/ status = "unspec"
         /\ tr' = tr + 1 /\ l' = 1 /\ ord' = <<>>
         /\ IF tr + 1 <= NRuns
            THEN /\ pid' = tr + 1 /\ repl' = Runs[tr + 1].repl /\ stdin' = Runs[tr + 1].stdin
                 /\ ctl' = [m |-> "done"] /\ kont' = <<Frame("seq", <<>>, 1, <<>>, 0, 0)>>
                 /\ cur' = 2 /\ envs' = <<[parent |-> 0, vars |-> GlobalVars], [parent |-> 1, vars |-> <<>>]>>
                 /\ heap' = <<>> /\ ln' = 0 /\ out' = <<>> /\ diags' = <<>> /\ natlog' = <<>> /\ status' = "run" /\ why' = "" /\ steps' = 0
            ELSE UNCHANGED semvars
Finished == tr > NRuns /\ UNCHANGED <<semvars, tracevars>>
TraceNext == Silent \/ PrintEv \/ NativeEv \/ DiagEv \/ LaterDiag \/ EndEv \/ Finished

(* the action properties of BornoSem, within one run (the switch to the next run resets the machine) *)
allvars == <<semvars, tracevars>>
NoEffectAfterErrorT == [][tr' = tr => NoEffectAfterErrorB]_allvars
MonotoneT == [][tr' = tr => MonotoneB]_allvars
StoreLocalT == [][tr' = tr => StoreLocalB]_allvars
OutputAppendOnlyT == [][tr' = tr => OutputAppendOnlyB]_allvars

(* acceptance: the high-water mark of (run, position) reaches the end; a rejection leaves it at the first
   event no behaviour of the specification explains *)
Mark == TLCSet(1, IF TLCGet(1) < tr * 100000 + l THEN tr * 100000 + l ELSE TLCGet(1))
Accepted == PrintT(<<"HWM", TLCGet(1), NRuns>>) /\ TLCGet(1) >= (NRuns + 1) * 100000
ASSUME TLCSet(1, 0)
=============================================================================
