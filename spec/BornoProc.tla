------------------------------ MODULE BornoProc ------------------------------
(***************************************************************************)
(* The process level of Borno (C19, C20, the exit clauses of C06 and C08):  *)
(* command line, file, the two global error flags, exit status, and the     *)
(* REPL loop.  The program text is abstracted to its outcome class; the     *)
(* concrete behaviour of programs is BornoSem's business.                   *)
(* Small enough for TLC to explore completely and (with the @type           *)
(* annotations) for Apalache to check IndInv as an inductive invariant,     *)
(* i.e. for REPL sessions of any length.                                    *)
(***************************************************************************)
EXTENDS Integers

CONSTANT
  \* @type: Int;
  MaxLines          \* bound on REPL lines for TLC (Apalache's inductive check needs none)

CInit == MaxLines \in Nat        \* Apalache: any bound, i.e. sessions of any length
Classes == {"clean", "lexerr", "synerr", "rterr"}
VARIABLES
  \* @type: Int;
  nargs,            \* number of command-line arguments (0 = interactive)
  \* @type: Bool;
  extOK,            \* the script name ends in .bn
  \* @type: Bool;
  fileOK,           \* the file can be read
  \* @type: Str;
  class,            \* outcome class of the text being run (script, or current REPL line)
  \* @type: Str;
  phase,            \* args | read | lex | parse | interp | flags | prompt | line | reset | exit
  \* @type: Bool;
  hadError,
  \* @type: Bool;
  hadRuntimeError,
  \* @type: Bool;
  ran,              \* the interpreter executed (part of) the current text
  \* @type: Bool;
  msg,              \* a usage / file message was written
  \* @type: Int;
  exit,             \* exit status, -1 while running
  \* @type: Int;
  lines,            \* REPL lines processed so far
  \* @type: Bool;
  lineOK            \* history: every finished REPL line ran iff it had no static error, with clear flags before it
vars == <<nargs, extOK, fileOK, class, phase, hadError, hadRuntimeError, ran, msg, exit, lines, lineOK>>

Init == /\ nargs \in 0..3 /\ extOK \in BOOLEAN /\ fileOK \in BOOLEAN /\ class \in Classes
        /\ phase = "args" /\ hadError = FALSE /\ hadRuntimeError = FALSE /\ ran = FALSE /\ msg = FALSE /\ exit = -1 /\ lines = 0 /\ lineOK = TRUE

Stop(code, m) == phase' = "exit" /\ exit' = code /\ msg' = m

CheckArgs == /\ phase = "args"
             /\ IF nargs > 1 THEN Stop(64, TRUE)
                ELSE IF nargs = 1 THEN (IF extOK THEN phase' = "read" /\ UNCHANGED <<exit, msg>> ELSE Stop(64, TRUE))
                ELSE phase' = "prompt" /\ UNCHANGED <<exit, msg>>
             /\ UNCHANGED <<nargs, extOK, fileOK, class, hadError, hadRuntimeError, ran, lines, lineOK>>
ReadFile == /\ phase = "read"
            /\ IF fileOK THEN phase' = "lex" /\ UNCHANGED <<exit, msg>> ELSE Stop(1, TRUE)
            /\ UNCHANGED <<nargs, extOK, fileOK, class, hadError, hadRuntimeError, ran, lines, lineOK>>
Lex == /\ phase = "lex" /\ phase' = "parse"
       /\ hadError' = (hadError \/ class = "lexerr")
       /\ UNCHANGED <<nargs, extOK, fileOK, class, hadRuntimeError, ran, msg, exit, lines, lineOK>>
Parse == /\ phase = "parse" /\ phase' = "interp"
         /\ hadError' = (hadError \/ class = "synerr")
         /\ UNCHANGED <<nargs, extOK, fileOK, class, hadRuntimeError, ran, msg, exit, lines, lineOK>>
Interpret == /\ phase = "interp"
             /\ IF hadError THEN UNCHANGED <<ran, hadRuntimeError>>                           \* SkipRunOnError
                ELSE ran' = TRUE /\ hadRuntimeError' = (hadRuntimeError \/ class = "rterr")
             /\ phase' = IF nargs = 1 THEN "flags" ELSE "reset"
             /\ UNCHANGED <<nargs, extOK, fileOK, class, hadError, msg, exit, lines, lineOK>>
ExitByFlags == /\ phase = "flags"
               /\ Stop(IF hadError THEN 65 ELSE IF hadRuntimeError THEN 70 ELSE 0, FALSE)
               /\ UNCHANGED <<nargs, extOK, fileOK, class, hadError, hadRuntimeError, ran, lines, lineOK>>
(* interactive mode *)
ReadLine == /\ phase = "prompt"
            /\ \/ /\ lines < MaxLines /\ phase' = "lex" /\ class' \in Classes /\ ran' = FALSE
                  /\ lineOK' = (lineOK /\ ~hadError /\ ~hadRuntimeError)                       \* flags are clear when a line starts
                  /\ UNCHANGED <<exit, msg>>
               \/ Stop(0, FALSE) /\ UNCHANGED <<class, ran, lineOK>>                          \* EofExit0
            /\ UNCHANGED <<nargs, extOK, fileOK, hadError, hadRuntimeError, lines>>
ResetFlags == /\ phase = "reset" /\ phase' = "prompt"
              /\ hadError' = FALSE /\ hadRuntimeError' = FALSE /\ lines' = lines + 1
              /\ lineOK' = (lineOK /\ (ran <=> class \notin {"lexerr", "synerr"}))
              /\ UNCHANGED <<nargs, extOK, fileOK, class, ran, msg, exit>>
(* a deliberately broken variant for the sanity configuration: the flags survive the line *)
ReplKeepsFlag == /\ phase = "reset" /\ phase' = "prompt" /\ lines' = lines + 1
                 /\ lineOK' = (lineOK /\ (ran <=> class \notin {"lexerr", "synerr"}))
                 /\ UNCHANGED <<nargs, extOK, fileOK, class, ran, msg, exit, hadError, hadRuntimeError>>
Done == phase = "exit" /\ UNCHANGED vars

Next == CheckArgs \/ ReadFile \/ Lex \/ Parse \/ Interpret \/ ExitByFlags \/ ReadLine \/ ResetFlags \/ Done
NextBroken == CheckArgs \/ ReadFile \/ Lex \/ Parse \/ Interpret \/ ExitByFlags \/ ReadLine \/ ReplKeepsFlag \/ Done
Spec == Init /\ [][Next]_vars

Script == nargs = 1 /\ extOK /\ fileOK
ExitClassifies == phase = "exit" =>
   /\ (exit = 0 /\ nargs = 1) <=> (Script /\ class = "clean")
   /\ exit = 65 <=> (Script /\ class \in {"lexerr", "synerr"})
   /\ exit = 70 <=> (Script /\ class = "rterr")
   /\ exit = 64 <=> (nargs > 1 \/ (nargs = 1 /\ ~extOK))
   /\ exit = 1 <=> (nargs = 1 /\ extOK /\ ~fileOK)
   /\ exit \in {0, 1, 64, 65, 70}
NothingRunsOnStaticError == /\ (hadError => ~ran)
                            /\ (phase = "exit" /\ exit \in {1, 64, 65} => ~ran)
UsageOnlyOnMisuse == msg <=> (phase = "exit" /\ exit \in {1, 64})
ReplEofExit0 == (phase = "exit" /\ nargs = 0) => exit = 0
ReplLineIndependence == lineOK
FlagsClearAtPrompt == phase = "prompt" => ~hadError /\ ~hadRuntimeError

(* inductive invariant for Apalache (unbounded number of REPL lines) *)
TypeOK == /\ nargs \in 0..3 /\ extOK \in BOOLEAN /\ fileOK \in BOOLEAN /\ class \in Classes
          /\ phase \in {"args", "read", "lex", "parse", "interp", "flags", "prompt", "reset", "exit"}
          /\ hadError \in BOOLEAN /\ hadRuntimeError \in BOOLEAN /\ ran \in BOOLEAN /\ msg \in BOOLEAN
          /\ exit \in {-1, 0, 1, 64, 65, 70} /\ lines \in Nat /\ lineOK \in BOOLEAN
IndInv == /\ TypeOK /\ lineOK /\ FlagsClearAtPrompt /\ NothingRunsOnStaticError /\ ExitClassifies /\ UsageOnlyOnMisuse
          /\ (phase \in {"prompt", "reset"} => nargs = 0) /\ (phase \in {"read", "flags"} => nargs = 1 /\ extOK)
          /\ (phase = "flags" => fileOK) /\ (phase \in {"lex", "parse", "interp"} /\ nargs = 1 => extOK /\ fileOK) /\ (phase \in {"lex", "parse", "interp"} => nargs \in {0, 1})
          /\ (phase = "args" => ~hadError /\ ~hadRuntimeError /\ ~ran /\ exit = -1)
          /\ (phase # "exit" <=> exit = -1)
          /\ (phase \in {"read", "lex"} => ~hadError /\ ~hadRuntimeError /\ ~ran)
          /\ (phase = "parse" => (hadError <=> class = "lexerr") /\ ~hadRuntimeError /\ ~ran)
          /\ (phase = "interp" => (hadError <=> class \in {"lexerr", "synerr"}) /\ ~hadRuntimeError /\ ~ran)
          /\ (phase \in {"flags", "reset"} => (hadError <=> class \in {"lexerr", "synerr"}) /\ (hadRuntimeError <=> class = "rterr") /\ (ran <=> ~hadError))
          /\ (phase = "exit" /\ nargs = 0 => exit = 0)
=============================================================================
