------------------------------ MODULE BornoSem ------------------------------
(***************************************************************************)
(* The abstract machine of Borno: a small-step (CEK-style) semantics of    *)
(* statements, expressions, scopes, closures, arrays/objects (a heap of    *)
(* shared references), built-ins, diagnostics and output.                  *)
(* Properties C03-C07, C11-C14 (and the evaluator side of C02, C15-C17).   *)
(*                                                                         *)
(* One action per place where an interpreter reads or writes its state.    *)
(* The program is data: ProgOf(pid) is a tree of BornoSyntax; control      *)
(* refers to nodes by their path.  An error is ABSORBING: Raise halts the  *)
(* machine (C06); break/continue/return travel as a signal that unwinds    *)
(* the continuation to the nearest handler (C04, C05).                     *)
(***************************************************************************)
EXTENDS BornoSyntax, BornoValues, TLC

CONSTANTS ProgOf(_),      \* pid -> program tree (Prog node)
          MaxSteps        \* fuel: a behaviour longer than this ends with status "fuel"

VARIABLES pid,     \* which program
          repl,    \* BOOLEAN: interactive mode (expression statements echo their value)
          stdin,   \* sequence of input lines (code point sequences) not yet consumed
          ctl,     \* control: what the machine is doing now
          kont,    \* continuation: stack of frames, top first
          cur,     \* current scope (index into envs)
          envs,    \* scopes: [parent, vars]; 1 = globals (built-ins), 2 = program scope
          heap,    \* arrays, objects, closures: shared by reference
          ln,      \* source line of the statement / header being executed
          out,     \* what has been written to stdout: print, echo and prompt records
          diags,   \* diagnostics written to stderr: [kind, ln]
          natlog,  \* built-in invocations, in order
          status,  \* "run" | "done" | "error" | "fuel" | "unspec"
          why,     \* reason for status "unspec"
          steps
semvars == <<pid, repl, stdin, ctl, kont, cur, envs, heap, ln, out, diags, natlog, status, why, steps>>

(* Deliberately broken variants of single actions, switched on only by the sanity configurations
   (`CONSTANT Broken <- ...`): TLC must then report an invariant violated - which shows that the invariants bite.
   Each reproduces a defect the pinned tree had. *)
Broken == {}

P == ProgOf(pid)
Node(p) == At(P, p)
Kid(p, i) == Append(p, i)

Frame(f, p, i, vs, env, l) == [f |-> f, p |-> p, i |-> i, vs |-> vs, env |-> env, ln |-> l]
F0(f, p) == Frame(f, p, 0, <<>>, 0, 0)

GlobalVars == [b \in Builtins |-> VNat(b)]
InitSem(id, in, isRepl) ==
  /\ pid = id /\ repl = isRepl /\ stdin = in
  /\ ctl = [m |-> "done"] /\ kont = <<Frame("seq", <<>>, 1, <<>>, 0, 0)>>
  /\ cur = 2 /\ envs = <<[parent |-> 0, vars |-> GlobalVars], [parent |-> 1, vars |-> <<>>]>>
  /\ heap = <<>> /\ ln = 0 /\ out = <<>> /\ diags = <<>> /\ natlog = <<>> /\ status = "run" /\ why = "" /\ steps = 0

---------------------------------------------------------------------------
(* scopes *)
RECURSIVE Lookup(_, _, _)     \* the innermost scope on the chain from e that binds name, or 0
Lookup(es, e, name) == IF e = 0 THEN 0 ELSE IF name \in DOMAIN es[e].vars THEN e ELSE Lookup(es, es[e].parent, name)
Bind(es, e, name, v) == [es EXCEPT ![e].vars = (name :> v) @@ es[e].vars]
NewScope(es, parent) == Append(es, [parent |-> parent, vars |-> <<>>])

(* The documentation fixes no order for the key / value listings of an object, only that the two agree and do not
   change while the object is unmodified.  The machine lists in insertion order, tags the listing array with the
   object and its modification count (lst), and stops being judged when a program looks INSIDE such an array. *)
IsListing(cell) == "lst" \in DOMAIN cell /\ Len(cell.e) >= 2

(* snapshot of a value for output: references are resolved against the heap at print time *)
RECURSIVE Snap(_, _, _, _)
Snap(v, h, nfc, d) ==
  IF d = 0 THEN [t |-> "deep"]
  ELSE CASE v.t = "arr" -> (LET es == [i \in 1..Len(h[v.r].e) |-> Snap(h[v.r].e[i], h, nfc, d - 1)] IN
                           IF IsListing(h[v.r]) THEN [t |-> "arr", e |-> es, lst |-> h[v.r].lst] ELSE [t |-> "arr", e |-> es])
         [] v.t = "obj" -> [t |-> "obj", ks |-> (IF nfc THEN [i \in 1..Len(h[v.r].ks) |-> CpsStr(NFC(StrCps(h[v.r].ks[i])))] ELSE h[v.r].ks), vs |-> [i \in 1..Len(h[v.r].vs) |-> Snap(h[v.r].vs[i], h, nfc, d - 1)]]
         [] v.t = "fn"  -> [t |-> "fn", name |-> h[v.r].name]
         [] v.t = "str" -> [t |-> "str", s |-> IF nfc THEN NFC(v.s) ELSE v.s]
         [] v.t = "num" -> [t |-> "num", n |-> v.n, bits |-> Bits(v.n)]
         [] OTHER -> v
SnapDepth == 6

---------------------------------------------------------------------------
(* ways to leave a step *)
Tick == steps' = steps + 1 /\ UNCHANGED <<pid, repl>>
Quiet == UNCHANGED <<out, diags, natlog, stdin, status, why>>                  \* no observable effect, still running
Goto(c, k) == ctl' = c /\ kont' = k
(* the first point at which a SOFT result (numeric-looking string used as a number) entered the run: line and number of
   output records so far; the replay may instead see a type error exactly there *)
SoftMark(res) == IF IsSoft(res) /\ why = "" THEN "soft:" \o IntStr(ln) \o ":" \o IntStr(Len(out)) ELSE why
RaiseAtW(kind, line, w) ==
  /\ status' = "error" /\ diags' = Append(diags, [kind |-> kind, ln |-> line])
  /\ ctl' = [m |-> "halt"] /\ kont' = <<>> /\ why' = w
  /\ UNCHANGED <<cur, envs, heap, ln, out, natlog, stdin>>
RaiseAt(kind, line) ==
  IF "ErrorDoesNotStop" \in Broken /\ ctl.m \in {"eval", "val"}
  THEN /\ diags' = Append(diags, [kind |-> kind, ln |-> line]) /\ status' = "error"      \* reported, but evaluation carries on with nil
       /\ ctl' = [m |-> "val", v |-> VNil] /\ kont' = (IF ctl.m = "val" THEN Tail(kont) ELSE kont)
       /\ UNCHANGED <<cur, envs, heap, ln, out, natlog, stdin, why>>
  ELSE
  /\ status' = "error" /\ diags' = Append(diags, [kind |-> kind, ln |-> line])
  /\ ctl' = [m |-> "halt"] /\ kont' = <<>>
  /\ UNCHANGED <<cur, envs, heap, ln, out, natlog, stdin, why>>
Raise(kind) == RaiseAt(kind, ln)
StopUnspec(w) ==
  /\ status' = "unspec" /\ why' = w /\ ctl' = [m |-> "halt"] /\ kont' = <<>>
  /\ UNCHANGED <<cur, envs, heap, ln, out, diags, natlog, stdin>>
(* deliver the result of a pure operation to continuation k *)
Finish(res, k) ==
  CASE res.r = "val" -> /\ Goto([m |-> "val", v |-> res.v], k) /\ why' = SoftMark(res)
                        /\ UNCHANGED <<out, diags, natlog, stdin, status, cur, envs, heap, ln>>
    [] res.r = "err" -> (IF IsSoft(res) THEN RaiseAtW(res.kind, ln, SoftMark(res)) ELSE Raise(res.kind))
    [] res.r = "unspec" -> StopUnspec(res.why)
Running == (status = "run" \/ ("ErrorDoesNotStop" \in Broken /\ status = "error" /\ ctl.m # "halt")) /\ steps < MaxSteps

---------------------------------------------------------------------------
(* STATEMENTS *)
Exec(m) == Running /\ ctl.m = "exec" /\ Node(ctl.p).k = m
SetLn(n) == ln' = IF n.ln > 0 THEN n.ln ELSE ln

ExecSimple ==   \* expr, print, return-with-value, var-with-initialiser: evaluate the expression under a frame
  /\ Running /\ ctl.m = "exec"
  /\ LET n == Node(ctl.p) IN
     /\ n.k \in {"expr", "print", "return", "var"} /\ ~IsNone(n.c[1])
     /\ Goto([m |-> "eval", p |-> Kid(ctl.p, 1)], <<F0(n.k, ctl.p)>> \o kont) /\ SetLn(n)
  /\ Quiet /\ UNCHANGED <<cur, envs, heap>> /\ Tick

Declare(name, v, k) ==
  IF name \in DOMAIN envs[cur].vars THEN Raise("redeclare")
  ELSE /\ envs' = Bind(envs, cur, name, v) /\ Goto([m |-> "done"], k) /\ Quiet /\ UNCHANGED <<cur, heap, ln>>

ExecVarNoInit ==
  /\ Exec("var") /\ IsNone(Node(ctl.p).c[1])
  /\ LET n == Node(ctl.p) IN
     IF n.name \in DOMAIN envs[cur].vars THEN RaiseAt("redeclare", IF n.ln > 0 THEN n.ln ELSE ln)
     ELSE envs' = Bind(envs, cur, n.name, VNil) /\ Goto([m |-> "done"], kont) /\ Quiet /\ UNCHANGED <<cur, heap>> /\ SetLn(n)
  /\ Tick

ExecReturnBare ==
  /\ Exec("return") /\ IsNone(Node(ctl.p).c[1])
  /\ Goto([m |-> "sig", s |-> "return", v |-> VNil, ln |-> Node(ctl.p).ln], kont) /\ SetLn(Node(ctl.p))
  /\ Quiet /\ UNCHANGED <<cur, envs, heap>> /\ Tick

ExecBreakContinue ==
  /\ Running /\ ctl.m = "exec" /\ Node(ctl.p).k \in {"break", "continue"}
  /\ Goto([m |-> "sig", s |-> Node(ctl.p).k, v |-> VNil, ln |-> Node(ctl.p).ln], kont) /\ SetLn(Node(ctl.p))
  /\ Quiet /\ UNCHANGED <<cur, envs, heap>> /\ Tick

ExecVarList ==
  /\ Exec("varlist")
  /\ Goto([m |-> "done"], <<Frame("seq", ctl.p, 1, <<>>, 0, 0)>> \o kont) /\ SetLn(Node(ctl.p))
  /\ Quiet /\ UNCHANGED <<cur, envs, heap>> /\ Tick

BlockEnter ==
  /\ Exec("block")
  /\ envs' = NewScope(envs, cur) /\ cur' = Len(envs) + 1
  /\ Goto([m |-> "done"], <<Frame("block", ctl.p, 1, <<>>, cur, 0)>> \o kont) /\ SetLn(Node(ctl.p))
  /\ Quiet /\ UNCHANGED heap /\ Tick

IfEnter ==
  /\ Running /\ ctl.m = "exec" /\ Node(ctl.p).k \in {"if", "while"}
  /\ Goto([m |-> "eval", p |-> Kid(ctl.p, 1)], <<F0(IF Node(ctl.p).k = "if" THEN "ifCond" ELSE "whileCond", ctl.p)>> \o kont)
  /\ SetLn(Node(ctl.p)) /\ Quiet /\ UNCHANGED <<cur, envs, heap>> /\ Tick

(* for: one fresh scope for the whole statement; initialiser once; then condition, body, increment *)
ForCondPhase(p, k) ==
  IF IsNone(Node(p).c[2]) THEN Goto([m |-> "exec", p |-> Kid(p, 4)], <<F0("forBody", p)>> \o k)
  ELSE Goto([m |-> "eval", p |-> Kid(p, 2)], <<F0("forCond", p)>> \o k)
ForEnter ==
  /\ Exec("for")
  /\ envs' = NewScope(envs, cur) /\ cur' = Len(envs) + 1 /\ SetLn(Node(ctl.p))
  /\ LET k == <<Frame("forScope", ctl.p, 0, <<>>, cur, 0)>> \o kont IN
     IF IsNone(Node(ctl.p).c[1]) THEN ForCondPhase(ctl.p, k)
     ELSE Goto([m |-> "exec", p |-> Kid(ctl.p, 1)], <<F0("forInit", ctl.p)>> \o k)
  /\ Quiet /\ UNCHANGED heap /\ Tick

FunDeclare ==   \* a closure captures a fresh child of the declaring scope; the name is (re)bound in the current scope
  /\ Exec("fun")
  /\ LET n == Node(ctl.p)  ce == Len(envs) + 1  r == Len(heap) + 1 IN
     /\ heap' = Append(heap, [t |-> "fn", p |-> ctl.p, env |-> ce, name |-> n.name])
     /\ envs' = Bind(NewScope(envs, cur), cur, n.name, VFn(r))
     /\ SetLn(n)
  /\ Goto([m |-> "done"], kont) /\ Quiet /\ UNCHANGED cur /\ Tick

---------------------------------------------------------------------------
(* a statement finished normally: what the frame on top does next *)
Done(f) == Running /\ ctl.m = "done" /\ kont # <<>> /\ Head(kont).f = f

SeqNext ==      \* program, function body, declaration list: children in order, same scope
  /\ Done("seq")
  /\ LET fr == Head(kont)  n == Node(fr.p) IN
     IF fr.i <= Len(n.c) THEN Goto([m |-> "exec", p |-> Kid(fr.p, fr.i)], <<[fr EXCEPT !.i = fr.i + 1]>> \o Tail(kont)) /\ UNCHANGED status
     ELSE /\ Goto([m |-> "done"], Tail(kont))
          /\ status' = IF Tail(kont) = <<>> THEN "done" ELSE status
  /\ UNCHANGED <<cur, envs, heap, ln, out, diags, natlog, stdin, why>> /\ Tick

BlockNext ==
  /\ Done("block")
  /\ LET fr == Head(kont)  n == Node(fr.p) IN
     IF fr.i <= Len(n.c) THEN Goto([m |-> "exec", p |-> Kid(fr.p, fr.i)], <<[fr EXCEPT !.i = fr.i + 1]>> \o Tail(kont)) /\ UNCHANGED cur
     ELSE Goto([m |-> "done"], Tail(kont)) /\ cur' = fr.env             \* BlockExit: the scope ends here
  /\ Quiet /\ UNCHANGED <<envs, heap, ln>> /\ Tick

WhileBodyDone ==   \* body finished (or continue): test the condition again
  /\ Done("whileBody")
  /\ LET p == Head(kont).p IN Goto([m |-> "eval", p |-> Kid(p, 1)], <<F0("whileCond", p)>> \o Tail(kont)) /\ ln' = Node(p).ln
  /\ Quiet /\ UNCHANGED <<cur, envs, heap>> /\ Tick

ForInitDone ==
  /\ Done("forInit")
  /\ ForCondPhase(Head(kont).p, Tail(kont)) /\ ln' = Node(Head(kont).p).ln
  /\ Quiet /\ UNCHANGED <<cur, envs, heap>> /\ Tick

ForBodyDone ==     \* body finished (or continue): the increment, then the condition
  /\ Done("forBody")
  /\ LET p == Head(kont).p IN
     /\ IF IsNone(Node(p).c[3]) THEN ForCondPhase(p, Tail(kont))
        ELSE Goto([m |-> "eval", p |-> Kid(p, 3)], <<F0("forIncr", p)>> \o Tail(kont))
     /\ ln' = Node(p).ln
  /\ Quiet /\ UNCHANGED <<cur, envs, heap>> /\ Tick

ForExit ==
  /\ Done("forScope")
  /\ Goto([m |-> "done"], Tail(kont)) /\ cur' = Head(kont).env
  /\ Quiet /\ UNCHANGED <<envs, heap, ln>> /\ Tick

(* ScopesReclaimed: when a call ends and no closure was created while it ran, nothing can refer to the scopes it created
   (only closures hold scopes): they are dropped.  The machine would be correct without this; it keeps the state small
   in programs that call thousands of times. *)
AfterCall(fr) == IF "ReclaimAlways" \notin Broken /\ \E r \in (fr.vs[1] + 1)..Len(heap) : heap[r].t = "fn" THEN envs ELSE SubSeq(envs, 1, fr.i)
CallFallsOff ==    \* the body ended without return: the call's value is nil
  /\ Done("call")
  /\ Goto([m |-> "val", v |-> VNil], Tail(kont)) /\ cur' = Head(kont).env /\ ln' = Head(kont).ln
  /\ envs' = AfterCall(Head(kont))
  /\ Quiet /\ UNCHANGED <<heap>> /\ Tick

---------------------------------------------------------------------------
(* SIGNALS: break / continue / return unwind to the nearest handler *)
RECURSIVE Unwind(_, _, _)    \* [k: continuation with the handler on top (or <<>>), env: scope to restore (0 = unchanged)]
Unwind(k, s, env) ==
  IF k = <<>> THEN [k |-> k, env |-> env]
  ELSE LET fr == Head(k) IN
       IF fr.f = "call" \/ (s # "return" /\ fr.f \in {"whileBody", "forBody"})
          \/ ("WhileSwallowsReturn" \in Broken /\ fr.f = "whileBody") THEN [k |-> k, env |-> env]
       ELSE Unwind(Tail(k), s, IF fr.f \in {"block", "forScope"} THEN fr.env ELSE env)

Signal ==
  /\ Running /\ ctl.m = "sig"
  /\ LET u == Unwind(kont, ctl.s, 0)  restored == IF u.env = 0 THEN cur ELSE u.env IN
     IF u.k = <<>> THEN RaiseAt("stray", ctl.ln)                                   \* StraySignalAtTop
     ELSE LET fr == Head(u.k) IN
          IF fr.f = "call"                                                          \* ReturnUnwindsToCall (a loop signal that
          THEN /\ Goto([m |-> "val", v |-> ctl.v], Tail(u.k))                       \* reaches a call ends it with nil:
               /\ cur' = fr.env /\ ln' = fr.ln                                      \* FnAbsorbsLoopSignal)
               /\ envs' = AfterCall(fr)
               /\ Quiet /\ UNCHANGED <<heap>>
          ELSE IF ctl.s = "break" /\ ~("WhileSwallowsReturn" \in Broken /\ FALSE)     \* BreakLeavesInnermostLoop
          THEN Goto([m |-> "done"], Tail(u.k)) /\ cur' = restored /\ Quiet /\ UNCHANGED <<envs, heap, ln>>
          ELSE Goto([m |-> "done"], u.k) /\ cur' = restored /\ Quiet /\ UNCHANGED <<envs, heap, ln>>   \* continue = body done
  /\ Tick

---------------------------------------------------------------------------
(* EXPRESSIONS *)
Eval(m) == Running /\ ctl.m = "eval" /\ Node(ctl.p).k = m

EvalLit == /\ Eval("lit") /\ Goto([m |-> "val", v |-> Node(ctl.p).v], kont)
           /\ Quiet /\ UNCHANGED <<cur, envs, heap, ln>> /\ Tick
EvalId  == /\ Eval("id")
           /\ LET e == Lookup(envs, cur, Node(ctl.p).name) IN
              IF e = 0 THEN Raise("undef")
              ELSE Goto([m |-> "val", v |-> envs[e].vars[Node(ctl.p).name]], kont) /\ Quiet /\ UNCHANGED <<cur, envs, heap, ln>>
           /\ Tick
EvalGroup == /\ Eval("grp") /\ Goto([m |-> "eval", p |-> Kid(ctl.p, 1)], kont)
             /\ Quiet /\ UNCHANGED <<cur, envs, heap, ln>> /\ Tick
LogicalEnter == /\ Eval("log") /\ Goto([m |-> "eval", p |-> Kid(ctl.p, 1)], <<F0("log", ctl.p)>> \o kont)
                /\ Quiet /\ UNCHANGED <<cur, envs, heap, ln>> /\ Tick

KidsKinds == {"un", "bin", "asg", "iasg", "pasg", "call", "idx", "prop", "arr", "obj"}

(* allocation and stores *)
Alloc(cell, mk(_), k) == /\ heap' = Append(heap, cell) /\ Goto([m |-> "val", v |-> mk(Len(heap) + 1)], k)
                         /\ Quiet /\ UNCHANGED <<cur, envs, ln>>

IndexIn(v, len) ==    \* position (1-based) denoted by index value v in a sequence of length len
  CASE v.t = "num" -> (IF HasI64(v.n) /\ FitsInt(v.n) /\ ToInt(v.n) >= 0 /\ ToInt(v.n) < len THEN Val(ToInt(v.n) + 1) ELSE Err("index"))
    [] v.t = "str" -> (IF LooksNumeric(v.s) /\ StrNum(v.s) # "OVERFLOW"
                       THEN (LET n == StrNum(v.s) IN
                             IF HasI64(n) /\ FitsInt(n) /\ ToInt(n) >= 0 /\ ToInt(n) < len THEN Soft(Val(ToInt(n) + 1)) ELSE Soft(Err("index")))
                       ELSE IF LooksNumeric(v.s) \/ MaybeNumeric(v.s) THEN Unspec("numeric-string") ELSE Err("index"))
    [] Vague(v) -> Unspec("vague-operand")
    [] OTHER -> Err("index")

RECURSIVE PosOf(_, _)
PosOf(ks, key) == IF ks = <<>> THEN 0 ELSE IF Head(ks) = key THEN 1 ELSE (LET r == PosOf(Tail(ks), key) IN IF r = 0 THEN 0 ELSE r + 1)
ObjPut(cell, key, v) == LET i == PosOf(cell.ks, key) IN
                        IF i = 0 THEN [cell EXCEPT !.ks = Append(cell.ks, key), !.vs = Append(cell.vs, v), !.ver = cell.ver + 1]
                        ELSE [cell EXCEPT !.vs[i] = v, !.ver = cell.ver + 1]
RECURSIVE ObjOf(_, _, _)
ObjOf(ks, vs, acc) == IF ks = <<>> THEN acc ELSE ObjOf(Tail(ks), Tail(vs), ObjPut(acc, Head(ks), Head(vs)))
DropAt(s, i) == SubSeq(s, 1, i - 1) \o SubSeq(s, i + 1, Len(s))

(* user function call: fresh activation, child of the closure's scope, holding the function's own name and the
   parameters bound by position (ActivationFresh) *)
RECURSIVE BindParams(_, _, _)
BindParams(vars, ps, as) == IF ps = <<>> THEN vars ELSE BindParams((Head(ps) :> Head(as)) @@ vars, Tail(ps), Tail(as))
InvokeUser(fv, args, k) ==
  LET fc == heap[fv.r]  n == Node(fc.p) IN
  /\ envs' = Append(envs, [parent |-> fc.env, vars |-> BindParams((n.name :> fv), n.params, args)])
  /\ cur' = Len(envs) + 1
  /\ Goto([m |-> "done"], <<Frame("seq", fc.p, 1, <<>>, 0, 0), Frame("call", <<>>, Len(envs), <<Len(heap)>>, cur, ln)>> \o k)   \* i, vs: scopes and heap cells before the call
  /\ Quiet /\ UNCHANGED <<heap, ln>>

(* built-ins that touch the heap or the outside world *)
Trim(s) == LET IsWs(c) == c \in {32, 9, 10, 11, 12, 13, 133, 160}
               nb == {i \in 1..Len(s) : ~IsWs(s[i])} IN
           IF nb = {} THEN <<>> ELSE SubSeq(s, CHOOSE i \in nb : \A j \in nb : i <= j, CHOOSE i \in nb : \A j \in nb : i >= j)

InvokeNative(name, args, k) ==
  /\ natlog' = Append(natlog, [name |-> name, nargs |-> Len(args)])
  /\ LET OK(v) == Goto([m |-> "val", v |-> v], k) /\ UNCHANGED <<heap, out, stdin, status, diags, why, cur, envs, ln>>
         Fail(kind) == /\ status' = "error" /\ diags' = Append(diags, [kind |-> kind, ln |-> ln]) /\ ctl' = [m |-> "halt"] /\ kont' = <<>>
                       /\ UNCHANGED <<cur, envs, heap, ln, out, stdin, why>>
         Stop(w) == /\ status' = "unspec" /\ why' = w /\ ctl' = [m |-> "halt"] /\ kont' = <<>>
                    /\ UNCHANGED <<cur, envs, heap, ln, out, diags, stdin>>
         Pure(res) == CASE res.r = "val" -> (Goto([m |-> "val", v |-> res.v], k) /\ why' = SoftMark(res)
                                              /\ UNCHANGED <<heap, out, stdin, status, diags, cur, envs, ln>>)
                        [] res.r = "err" -> (/\ status' = "error" /\ diags' = Append(diags, [kind |-> res.kind, ln |-> ln]) /\ ctl' = [m |-> "halt"] /\ kont' = <<>>
                                             /\ why' = SoftMark(res) /\ UNCHANGED <<cur, envs, heap, ln, out, stdin>>)
                        [] res.r = "unspec" -> Stop(res.why)
         New(cell, mk(_)) == /\ heap' = Append(heap, cell) /\ Goto([m |-> "val", v |-> mk(Len(heap) + 1)], k)
                             /\ UNCHANGED <<out, stdin, status, diags, why, cur, envs, ln>>
         IsArr(i) == Len(args) >= i /\ args[i].t = "arr"
         IsObj(i) == Len(args) >= i /\ args[i].t = "obj"
     IN
     CASE name = "len" -> (IF IsArr(1) THEN OK(N(Len(heap[args[1].r].e))) ELSE Fail("native"))       \* LenIsCount
       [] name \in {"push", "remove"} /\ IsArr(1) /\ IsListing(heap[args[1].r]) -> Stop("listing-order")
       [] name = "push" -> (IF Len(args) >= 2 /\ IsArr(1)                                            \* PushRemoveArePure: a fresh array
                            THEN New([t |-> "arr", e |-> heap[args[1].r].e \o Tail(args)], VArr) ELSE Fail("native"))
       [] name = "remove" -> (IF ~IsArr(1) THEN Fail("native")
                              ELSE LET ix == IndexIn(args[2], Len(heap[args[1].r].e)) IN
                                   IF ix.r = "err" THEN Pure(Carry(Err("native"), ix, ix)) ELSE IF ix.r = "unspec" THEN Stop(ix.why)
                                   ELSE IF IsSoft(ix) THEN Stop("numeric-string")
                                   ELSE IF "RemoveShiftsInPlace" \in Broken
                                   THEN /\ heap' = [heap EXCEPT ![args[1].r].e = DropAt(heap[args[1].r].e, ix.v) \o <<heap[args[1].r].e[Len(heap[args[1].r].e)]>>]
                                        /\ Goto([m |-> "val", v |-> args[1]], k) /\ UNCHANGED <<out, stdin, status, diags, why, cur, envs, ln>>
                                   ELSE New([t |-> "arr", e |-> DropAt(heap[args[1].r].e, ix.v)], VArr))
       [] name = "delkey" -> (IF ~IsObj(1) \/ args[2].t # "str" THEN Fail("native")                  \* DeleteExact
                              ELSE LET cell == heap[args[1].r]  i == PosOf(cell.ks, CpsStr(args[2].s)) IN
                                   IF i = 0 THEN Fail("native")
                                   ELSE /\ heap' = [heap EXCEPT ![args[1].r] = [cell EXCEPT !.ks = DropAt(cell.ks, i), !.vs = DropAt(cell.vs, i), !.ver = cell.ver + 1]]
                                        /\ Goto([m |-> "val", v |-> args[1]], k)
                                        /\ UNCHANGED <<out, stdin, status, diags, why, cur, envs, ln>>)
       [] name = "keys" -> (IF IsObj(1) THEN New([t |-> "arr", e |-> [i \in 1..Len(heap[args[1].r].ks) |-> VStr(StrCps(heap[args[1].r].ks[i]))],
                                                  lst |-> [of |-> args[1].r, ver |-> heap[args[1].r].ver, kind |-> "keys"]], VArr)
                            ELSE Fail("native"))                                                     \* KeysValuesAligned: same listing order
       [] name = "values" -> (IF IsObj(1) THEN New([t |-> "arr", e |-> heap[args[1].r].vs,
                                                    lst |-> [of |-> args[1].r, ver |-> heap[args[1].r].ver, kind |-> "values"]], VArr) ELSE Fail("native"))
       [] name \in {"min", "max"} ->
            (IF Len(args) = 0 THEN Fail("native")
             ELSE Pure(MinMax(name = "min", IF Len(args) = 1 /\ IsArr(1) THEN heap[args[1].r].e ELSE args)))
       [] name = "clock" -> OK(VApprox("0", -1, <<"clock", IntStr(Len(natlog))>>))
       [] name = "input" ->
            (IF Len(args) > 1 \/ (Len(args) = 1 /\ args[1].t # "str") THEN Fail("native")
             ELSE IF stdin = <<>> THEN
                  /\ out' = IF Len(args) = 1 THEN Append(out, [t |-> "prompt", s |-> args[1].s]) ELSE out
                  /\ status' = "unspec" /\ why' = "input-at-eof" /\ ctl' = [m |-> "halt"] /\ kont' = <<>>
                  /\ UNCHANGED <<cur, envs, heap, ln, diags, stdin>>
             ELSE /\ out' = IF Len(args) = 1 THEN Append(out, [t |-> "prompt", s |-> args[1].s]) ELSE out      \* InputConsumesOneLine
                  /\ stdin' = Tail(stdin)
                  /\ Goto([m |-> "val", v |-> VStr(Trim(Head(stdin)))], k)
                  /\ UNCHANGED <<heap, status, diags, why, cur, envs, ln>>)
       [] OTHER -> Pure(PureNative(name, args))

(* checks made as soon as the i-th child of a node has its value (before later children are evaluated) *)
EarlyCheck(n, i, vs) ==
  CASE n.k = "call" /\ i = 1 ->
         (LET f == vs[1]  nargs == Len(n.c) - 1 IN
          IF Vague(f) THEN Unspec("vague-operand")
          ELSE IF f.t = "fn" THEN (IF Len(Node(heap[f.r].p).params) # nargs THEN Err("arity") ELSE Val(TRUE))
          ELSE IF f.t = "nat" THEN (IF FixedArity[f.name] >= 0 /\ FixedArity[f.name] # nargs THEN Err("arity") ELSE Val(TRUE))
          ELSE Err("callee"))
    [] n.k = "pasg" /\ i = 1 -> (IF vs[1].t = "obj" THEN Val(TRUE) ELSE IF Vague(vs[1]) THEN Unspec("vague-operand") ELSE Err("property"))
    [] OTHER -> Val(TRUE)

(* all children evaluated: perform the operation of node n (at path p) on their values vs, continue with k *)
Apply(n, vs, k) ==
  CASE n.k = "un"  -> Finish(UnOp(n.op, vs[1]), k)                              \* UnaryApply
    [] n.k = "bin" -> Finish(BinOp(n.op, vs[1], vs[2]), k)                      \* BinaryApply
    [] n.k = "asg" -> (LET e == Lookup(envs, cur, n.name) IN                    \* AssignStore: the binding a read would use
                       IF e = 0 THEN Raise("undef")
                       ELSE /\ envs' = [envs EXCEPT ![e].vars[n.name] = vs[1]] /\ Goto([m |-> "val", v |-> vs[1]], k)
                            /\ Quiet /\ UNCHANGED <<cur, heap, ln>>)
    [] n.k \in {"idx", "iasg"} /\ vs[1].t = "arr" /\ IsListing(heap[vs[1].r]) -> StopUnspec("listing-order")
    [] n.k = "idx" -> (IF vs[1].t # "arr" THEN (IF Vague(vs[1]) THEN StopUnspec("vague-operand") ELSE Raise("index"))   \* IndexRead
                       ELSE LET ix == IndexIn(vs[2], Len(heap[vs[1].r].e)) IN
                            IF ix.r = "val" THEN Finish(Carry(Val(heap[vs[1].r].e[ix.v]), ix, ix), k) ELSE Finish(ix, k))
    [] n.k = "iasg" -> (IF vs[1].t # "arr" THEN (IF Vague(vs[1]) THEN StopUnspec("vague-operand") ELSE Raise("index"))  \* IndexStore
                        ELSE LET ix == IndexIn(vs[2], Len(heap[vs[1].r].e)) IN
                             IF ix.r # "val" THEN Finish(ix, k)
                             ELSE /\ heap' = [heap EXCEPT ![vs[1].r].e[ix.v] = vs[3]] /\ Goto([m |-> "val", v |-> vs[3]], k)
                                  /\ why' = SoftMark(ix) /\ UNCHANGED <<out, diags, natlog, stdin, status, cur, envs, ln>>)
    [] n.k = "prop" -> (IF vs[1].t # "obj" THEN (IF Vague(vs[1]) THEN StopUnspec("vague-operand") ELSE Raise("property"))  \* PropRead
                        ELSE LET cell == heap[vs[1].r]  i == PosOf(cell.ks, n.name) IN
                             IF i = 0 THEN Raise("property") ELSE Finish(Val(cell.vs[i]), k))
    [] n.k = "pasg" -> /\ heap' = [heap EXCEPT ![vs[1].r] = ObjPut(heap[vs[1].r], n.name, vs[2])]                       \* PropStore
                       /\ Goto([m |-> "val", v |-> vs[2]], k) /\ Quiet /\ UNCHANGED <<cur, envs, ln>>
    [] n.k = "arr" -> Alloc([t |-> "arr", e |-> vs], VArr, k)                                                          \* ArrLitDone
    [] n.k = "obj" -> Alloc([ObjOf(n.keys, vs, [t |-> "obj", ks |-> <<>>, vs |-> <<>>, ver |-> 0]) EXCEPT !.ver = 0], VObj, k)                      \* ObjLitDone
    [] n.k = "call" -> (IF vs[1].t = "fn" THEN InvokeUser(vs[1], Tail(vs), k)
                        ELSE InvokeNative(vs[1].name, Tail(vs), k))

KidsEnter ==    \* start evaluating the children of an operator / call / literal node, left to right
  /\ Running /\ ctl.m = "eval" /\ Node(ctl.p).k \in KidsKinds
  /\ LET n == Node(ctl.p) IN
     IF n.c = <<>> THEN Apply(n, <<>>, kont)
     ELSE Goto([m |-> "eval", p |-> Kid(ctl.p, 1)], <<Frame("kids", ctl.p, 1, <<>>, 0, 0)>> \o kont)
          /\ Quiet /\ UNCHANGED <<cur, envs, heap, ln>>
  /\ Tick

Ret(f) == Running /\ ctl.m = "val" /\ kont # <<>> /\ Head(kont).f = f

KidsNext ==     \* EvalOnceLeftToRight: child i has its value; check, then child i+1 or the operation itself
  /\ Ret("kids")
  /\ LET fr == Head(kont)  n == Node(fr.p)  vs == Append(fr.vs, ctl.v)  chk == EarlyCheck(n, fr.i, vs) IN
     IF chk.r # "val" THEN Finish(chk, Tail(kont))
     ELSE IF fr.i < Len(n.c)
     THEN Goto([m |-> "eval", p |-> Kid(fr.p, fr.i + 1)], <<[fr EXCEPT !.i = fr.i + 1, !.vs = vs]>> \o Tail(kont))
          /\ Quiet /\ UNCHANGED <<cur, envs, heap, ln>>
     ELSE Apply(n, vs, Tail(kont))
  /\ Tick

LogicalDecide ==   \* short circuit on truthiness; the deciding operand's own value is the result
  /\ Ret("log")
  /\ LET n == Node(Head(kont).p) IN
     IF Vague(ctl.v) THEN StopUnspec("vague-operand")
     ELSE IF (n.op = "or") = Truthy(ctl.v) THEN Goto(ctl, Tail(kont)) /\ Quiet /\ UNCHANGED <<cur, envs, heap, ln>>
     ELSE Goto([m |-> "eval", p |-> Kid(Head(kont).p, 2)], Tail(kont)) /\ Quiet /\ UNCHANGED <<cur, envs, heap, ln>>
  /\ Tick

ExprStmtDone ==    \* in interactive mode an expression statement echoes its value
  /\ Ret("expr")
  /\ out' = IF repl THEN Append(out, [t |-> "echo", v |-> Snap(ctl.v, heap, FALSE, SnapDepth)]) ELSE out
  /\ Goto([m |-> "done"], Tail(kont))
  /\ UNCHANGED <<cur, envs, heap, ln, diags, natlog, stdin, status, why>> /\ Tick

RECURSIVE HasDeep(_)
HasDeep(x) == CASE x.t = "deep" -> TRUE
                [] x.t = "arr" -> \E i \in 1..Len(x.e) : HasDeep(x.e[i])
                [] x.t = "obj" -> \E i \in 1..Len(x.vs) : HasDeep(x.vs[i])
                [] OTHER -> FALSE
PrintEmit ==    \* the text of a value nested deeper than SnapDepth (in particular a value that contains itself) is left open
  /\ Ret("print")
  /\ LET sn == Snap(ctl.v, heap, TRUE, SnapDepth) IN
     IF HasDeep(sn) THEN StopUnspec("deep-or-cyclic-value")
     ELSE /\ out' = Append(out, [t |-> "print", v |-> sn])
          /\ Goto([m |-> "done"], Tail(kont))
          /\ UNCHANGED <<cur, envs, heap, ln, diags, natlog, stdin, status, why>>
  /\ Tick

DeclareBind == /\ Ret("var") /\ Declare(Node(Head(kont).p).name, ctl.v, Tail(kont)) /\ Tick

ReturnSignal ==
  /\ Ret("return")
  /\ Goto([m |-> "sig", s |-> "return", v |-> ctl.v, ln |-> Node(Head(kont).p).ln], Tail(kont))
  /\ Quiet /\ UNCHANGED <<cur, envs, heap, ln>> /\ Tick

IfArm ==        \* IfRunsOneArm
  /\ Ret("ifCond")
  /\ LET p == Head(kont).p  n == Node(p) IN
     IF Vague(ctl.v) THEN StopUnspec("vague-operand")
     ELSE IF Truthy(ctl.v) THEN Goto([m |-> "exec", p |-> Kid(p, 2)], Tail(kont)) /\ Quiet /\ UNCHANGED <<cur, envs, heap, ln>>
     ELSE IF IsNone(n.c[3]) THEN Goto([m |-> "done"], Tail(kont)) /\ Quiet /\ UNCHANGED <<cur, envs, heap, ln>>
     ELSE Goto([m |-> "exec", p |-> Kid(p, 3)], Tail(kont)) /\ Quiet /\ UNCHANGED <<cur, envs, heap, ln>>
  /\ Tick

WhileTest ==
  /\ Ret("whileCond")
  /\ LET p == Head(kont).p IN
     IF Vague(ctl.v) THEN StopUnspec("vague-operand")
     ELSE IF Truthy(ctl.v) THEN Goto([m |-> "exec", p |-> Kid(p, 2)], <<F0("whileBody", p)>> \o Tail(kont)) /\ Quiet /\ UNCHANGED <<cur, envs, heap, ln>>
     ELSE Goto([m |-> "done"], Tail(kont)) /\ Quiet /\ UNCHANGED <<cur, envs, heap, ln>>
  /\ Tick

ForTest ==
  /\ Ret("forCond")
  /\ LET p == Head(kont).p IN
     IF Vague(ctl.v) THEN StopUnspec("vague-operand")
     ELSE IF Truthy(ctl.v) THEN Goto([m |-> "exec", p |-> Kid(p, 4)], <<F0("forBody", p)>> \o Tail(kont)) /\ Quiet /\ UNCHANGED <<cur, envs, heap, ln>>
     ELSE Goto([m |-> "done"], Tail(kont)) /\ Quiet /\ UNCHANGED <<cur, envs, heap, ln>>       \* forScope is on top: ForExit
  /\ Tick

ForIncrDone ==
  /\ Ret("forIncr")
  /\ ForCondPhase(Head(kont).p, Tail(kont))
  /\ Quiet /\ UNCHANGED <<cur, envs, heap, ln>> /\ Tick

OutOfFuel == /\ status = "run" /\ steps >= MaxSteps /\ status' = "fuel"
             /\ UNCHANGED <<pid, repl, stdin, ctl, kont, cur, envs, heap, ln, out, diags, natlog, why, steps>>

Terminated == status # "run" /\ UNCHANGED semvars     \* explicit stuttering: any other stuck state is a deadlock (C07)

SemStep == \/ ExecSimple \/ ExecVarNoInit \/ ExecReturnBare \/ ExecBreakContinue \/ ExecVarList \/ BlockEnter \/ IfEnter
           \/ ForEnter \/ FunDeclare
           \/ SeqNext \/ BlockNext \/ WhileBodyDone \/ ForInitDone \/ ForBodyDone \/ ForExit \/ CallFallsOff
           \/ Signal
           \/ EvalLit \/ EvalId \/ EvalGroup \/ LogicalEnter \/ KidsEnter \/ KidsNext \/ LogicalDecide
           \/ ExprStmtDone \/ PrintEmit \/ DeclareBind \/ ReturnSignal \/ IfArm \/ WhileTest \/ ForTest \/ ForIncrDone
           \/ OutOfFuel
SemNext == SemStep \/ Terminated

---------------------------------------------------------------------------
(* INVARIANTS and ACTION PROPERTIES *)
Final == status # "run"

TerminalIsClassified == status \in {"run", "done", "error", "fuel", "unspec"}                         \* with deadlock checking ON (C07)
ErrorHasCause == (status = "error") <=> (diags # <<>>)
DoneIsClean == status = "done" => kont = <<>> /\ ctl.m = "done" /\ diags = <<>> /\ cur = 2
ScopesWellFormed == /\ cur \in 1..Len(envs)
                    /\ \A e \in 1..Len(envs) : envs[e].parent < e
                    /\ \A i \in 1..Len(kont) : kont[i].env <= Len(envs)
HeapWellFormed == \A r \in 1..Len(heap) :
                     CASE heap[r].t = "arr" -> \A i \in 1..Len(heap[r].e) : IsRef(heap[r].e[i]) => heap[r].e[i].r <= Len(heap)
                       [] heap[r].t = "obj" -> /\ Len(heap[r].ks) = Len(heap[r].vs)                   \* KeysValuesAligned
                                               /\ \A i, j \in 1..Len(heap[r].ks) : heap[r].ks[i] = heap[r].ks[j] => i = j
                       [] OTHER -> TRUE
(* a runtime error is absorbing and nothing observable happens after it (C06) *)
NoEffectAfterErrorB == status = "error" => UNCHANGED <<out, natlog, stdin, heap, envs, status, diags>>
NoEffectAfterError == [][NoEffectAfterErrorB]_semvars
(* scopes and heap cells are never deleted or renumbered; a closure never changes *)
MonotoneB == /\ Len(heap') >= Len(heap)
               /\ \A r \in 1..Len(heap) : heap[r].t = "fn" => heap'[r] = heap[r] /\ heap[r].env <= Len(envs')      \* a closure's scope is never reclaimed
               /\ \A e \in 1..Len(envs) : e <= Len(envs') => envs'[e].parent = envs[e].parent /\ DOMAIN envs[e].vars \subseteq DOMAIN envs'[e].vars
               /\ cur' <= Len(envs') /\ \A i \in 1..Len(kont') : kont'[i].env <= Len(envs')
Monotone == [][MonotoneB]_semvars
(* one step changes at most one existing heap cell (IndexStoreLocal / PropStoreLocal / PushRemoveArePure) *)
StoreLocalB == Cardinality({r \in 1..Len(heap) : heap'[r] # heap[r]}) <= 1
StoreLocal == [][StoreLocalB]_semvars
(* ReturnUnwindsToCall: a return signal is resolved in one step into the value of the nearest call (or the stray-signal error) *)
ReturnUnwindsToCallB == (ctl.m = "sig" /\ ctl.s = "return" /\ status = "run") => ctl'.m \in {"val", "halt"}
ReturnUnwindsToCall == [][ReturnUnwindsToCallB]_semvars
(* output only grows *)
OutputAppendOnlyB == /\ Len(out') >= Len(out) /\ SubSeq(out', 1, Len(out)) = out
                       /\ Len(natlog') >= Len(natlog) /\ SubSeq(natlog', 1, Len(natlog)) = natlog
OutputAppendOnly == [][OutputAppendOnlyB]_semvars
=============================================================================
