package main

// C13 (determinism) and C18 (meaning-preserving transformations): both work on programs that the specification has
// already executed (family files) and on the shipped example scripts.

import (
	"encoding/json"
	"fmt"
	"math/rand"
	"os"
	"path/filepath"
	"regexp"
	"runtime"
	"sort"
	"strings"
	"sync"
	"time"
)

// ------------------------------------------------------------------------------------------------ corpus

type corpusSpec struct {
	module, cfg string
	every       int // keep every n-th definite record
	must        string // records whose key matches are always kept
}

func (c *Ctx) loadCorpus(specs []corpusSpec, want func(*SemRec) bool) []*SemRec {
	var out []*SemRec
	for _, s := range specs {
		f := filepath.Join(c.Work, "corpus_"+s.module+".ndjson")
		if res := c.runTLC(TLCJob{Module: s.module, Cfg: s.cfg, OutFile: f, Timeout: 40 * time.Minute}); res.Err != "" {
			continue
		} else if res.MaxOutdegree > 1 {
			c.infra("specification is not deterministic on %s: a state has %d successors", s.module, res.MaxOutdegree)
		}
		var all []*SemRec
		forEachLine(f, func(line []byte) error {
			var rec SemRec
			if json.Unmarshal(line, &rec) != nil || (rec.Status != "done" && rec.Status != "error") {
				return nil
			}
			if want != nil && !want(&rec) {
				return nil
			}
			// random programs may run into the open C02 finding (string + boolean): the specification expects an
			// operand error there; such programs are left to C02's own cells
			if s.module == "FamWild" && rec.Status == "error" && rec.Diags[0].Kind == "operand" {
				return nil
			}
			// ... and so are the cells of the operator matrix that ARE that finding (they belong to C02's check)
			if s.module == "FamOps" && reStrBoolCell.MatchString(rec.Cls) {
				return nil
			}
			all = append(all, &rec)
			return nil
		})
		// TLC emits in a worker-dependent order: sample from the sorted list so that a seed selects the same programs
		sort.Slice(all, func(i, j int) bool { return all[i].Key < all[j].Key })
		var must *regexp.Regexp
		if s.must != "" {
			must = regexp.MustCompile(s.must)
		}
		for k, rec := range all {
			if (k+c.Seed)%s.every == 0 || (must != nil && must.MatchString(rec.Key)) {
				out = append(out, rec)
			}
		}
	}
	return out
}

var reStrBoolCell = regexp.MustCompile(`^\+\|(str-[a-z]+\|bool|bool\|str-[a-z]+)$`)

var reClock = regexp.MustCompile(`\d\.\d+e\+09`)

func maskClock(s string) string { return reClock.ReplaceAllString(s, "<clock>") }

// repoRoot is /repo; VERIF_REPO points development runs (seeded changes evaluated in parallel) at a scratch copy.
func repoRoot() string {
	if d := os.Getenv("VERIF_REPO"); d != "" {
		return d
	}
	return "/repo"
}

func exampleScripts() []string {
	fs, _ := filepath.Glob(filepath.Join(repoRoot(), "example/*.bn"))
	sort.Strings(fs)
	return fs
}

const exampleStdin = "রহিম\n২৫\nline three\nline four\nline five\nline six\n"

// ------------------------------------------------------------------------------------------------ C13

func checkC13(c *Ctx) {
	rFresh, rSame := 24, 40
	sel := []corpusSpec{{"FamObjects", "FamObjects_quick.cfg", 9, `^litnf[ab]:o;(litnf[ab]:p;|write:o\.[abc];|del:o\.[abc];|delnf:o\.[12];)?(\|quiet)?$`}, {"FamOrder", "FamOrder_quick.cfg", 3, ""}, {"FamWild", "FamWild_quick.cfg", 60, ""}, {"FamCalls", "FamCalls_quick.cfg", 20, ""},
		{"FamFaults", "FamFaults_quick.cfg", 12, "two-faults"}, {"FamInput", "FamInput.cfg", 7, ""}}
	if c.Tier == "thorough" {
		rFresh, rSame = 200, 300
		sel = []corpusSpec{{"FamObjects", "FamObjects_quick.cfg", 3, "litnf"}, {"FamOrder", "FamOrder_quick.cfg", 1, ""}, {"FamWild", "FamWild_quick.cfg", 15, ""}, {"FamCalls", "FamCalls_quick.cfg", 5, ""}, {"FamArrays", "FamArrays_quick.cfg", 10, ""},
			{"FamFaults", "FamFaults_quick.cfg", 2, "two-faults"}, {"FamInput", "FamInput.cfg", 1, ""}}
	}
	corpus := c.loadCorpus(sel, nil)
	// programs that rebind a built-in name: state that must not leak from one execution to the next in the same process
	extra := [][]string{
		{"K:print", "I:len", "(", "[", "N:1e0", ",", "N:2e0", "]", ")", ";", "L:2", "I:len", "=", "N:5e0", ";", "L:3", "K:print", "I:len", ";"},
		{"K:print", "I:abs", "(", "-", "N:3e0", ")", ";", "L:2", "I:abs", "=", "I:sqrt", ";", "L:3", "K:print", "I:abs", "(", "N:16e0", ")", ";"},
		{"K:var", "I:o", "=", "{", "I:b", ":", "N:2e0", ",", "I:a", ":", "N:1e0", ",", "I:c", ":", "[", "{", "I:z", ":", "N:1e0", ",", "I:y", ":", "N:2e0", ",", "I:x", ":", "N:3e0", "}", "]", "}", ";", "L:2", "K:print", "I:o", ";", "L:3", "K:print", "[", "I:o", ",", "I:o", "]", ";", "L:4", "K:print", "I:keys", "(", "I:o", ")", ";", "L:5", "K:print", "I:values", "(", "I:o", ")", ";"},
	}
	// failing programs whose diagnostic could mention the object's state: 6 properties, a missing one read / deleted / called
	six := []string{"K:var", "I:o", "=", "{", "I:f", ":", "N:6e0", ",", "I:a", ":", "N:1e0", ",", "I:e", ":", "N:5e0", ",", "I:b", ":", "N:2e0", ",", "I:d", ":", "N:4e0", ",", "I:c", ":", "N:3e0", "}", ";", "L:2", "K:print", "S:before", ";", "L:3"}
	extra = append(extra,
		append(append([]string{}, six...), "K:print", "I:o", ".", "I:zz", ";"),
		append(append([]string{}, six...), "I:delkey", "(", "I:o", ",", "S:zz", ")", ";"),
		append(append([]string{}, six...), "I:o", ".", "I:zz", "(", ")", ";"),
		append(append([]string{}, six...), "K:print", "I:keys", "(", "I:o", ")", "[", "N:9e0", "]", ";"))
	type prog struct {
		key, src, stdin string
		rec             *SemRec
	}
	var progs []prog
	for _, r := range corpus {
		src, err := Render(r.Toks, nil)
		if err == nil {
			progs = append(progs, prog{r.Fam + ":" + r.Key, src, stdinText(r.Stdin), r})
		}
	}
	for i, t := range extra {
		src, _ := Render(t, nil)
		progs = append(progs, prog{fmt.Sprintf("rebind-builtin-%d", i), src, "", nil})
	}
	for _, f := range exampleScripts() {
		b, _ := os.ReadFile(f)
		progs = append(progs, prog{"example:" + filepath.Base(f), string(b), exampleStdin, nil})
	}
	// texts the front end rejects: the same diagnostics on every execution, also the second time in one process
	pr := keywordSpelling["print"]
	for i, src := range []string{pr + " (1;\n", "@\n", pr + " 1;\n@@@\n" + pr + " 2;\n", keywordSpelling["var"] + " = 3;\n", "\"open\n", pr + " 1 +;\n" + pr + " 2 +;\n"} {
		progs = append(progs, prog{fmt.Sprintf("rejected-%d", i), src, "", nil})
	}
	for i, p := range progs {
		if i%(len(progs)/4+1) == 0 {
			c.sample(map[string]interface{}{"program": p.key, "source": clip(p.src, 500), "stdin": clip(p.stdin, 60)})
		}
	}
	// (a) the same program many times in ONE process
	cases := make(chan *Case, 64)
	go func() {
		for i, p := range progs {
			cases <- &Case{ID: i, Mode: "run", Src: p.src, Stdin: p.stdin, Repeat: rSame, Fuel: 400000}
		}
		close(cases)
	}()
	first := make([]*Result, len(progs))
	c.Pool.Run(cases, func(cs *Case, r *Result) {
		p := progs[cs.ID]
		first[cs.ID] = r
		if strings.HasPrefix(p.key, "example:") && strings.Contains(p.src, builtinSpelling["clock"]) {
			// the clock example legitimately differs between runs; compare with the clock masked
			ok := true
			for _, v := range r.Variants {
				if maskClock(v) != maskClock(fmt.Sprintf("run 2: out=%q err=%q panic=%q", r.Out, r.Err, "")) && !strings.Contains(v, "e+09") {
					ok = false
				}
			}
			if ok {
				return
			}
		}
		if len(r.Variants) > 0 {
			c.violation("C13|same-process|"+strings.SplitN(p.key, ":", 2)[0]+"|differs-between-runs", p.key, map[string]interface{}{"mode": "run", "src": p.src, "stdin": p.stdin,
				"detail": fmt.Sprintf("%d repetitions in one process: first run out=%q err=%q; %s", rSame, clip(r.Out, 200), clip(r.Err, 100), strings.Join(r.Variants, " | "))})
		}
		if p.rec != nil {
			if what, detail := compareSem(p.rec, r, &SemOpts{}); what != "" {
				c.violation("C13|same-process|"+p.rec.Fam+"|"+what, p.key, map[string]interface{}{"mode": "run", "src": p.src, "detail": detail})
			}
		}
	})
	// direction 2: the shipped examples (and a sample of the corpus) as recorded runs validated against TraceSem;
	// the trees of the examples are the real parser's (C01 covers the parser), listing orders and the clock are
	// resolved by what was logged
	{
		var runs []*TraceRun
		cs := make(chan *Case, 16)
		go func() {
			for i, p := range progs {
				if strings.HasPrefix(p.key, "example:") {
					cs <- &Case{ID: i, Mode: "run", Src: p.src, Stdin: p.stdin, Trace: true, WantA: true, Fuel: 400000}
				}
			}
			close(cs)
		}()
		c.Pool.Run(cs, func(k *Case, r *Result) {
			if r.Ast == nil || len(r.Trace) == 0 || r.Panic != "" || r.Crash != "" {
				return
			}
			b, _ := json.Marshal(r.Ast)
			lines := [][]int{}
			for _, l := range strings.Split(strings.TrimSuffix(progs[k.ID].stdin, "\n"), "\n") {
				lines = append(lines, cpsOf(l))
			}
			runs = append(runs, &TraceRun{Prog: b, Stdin: lines, Events: r.Trace, key: progs[k.ID].key})
		})
		var recs []*SemRec
		for i, r := range corpus {
			if i%4 == 0 && len(recs) < 150 {
				recs = append(recs, r)
			}
		}
		runs = append(runs, c.recordTraces(recs)...)
		n := c.validateTraces("examples+corpus", runs)
		c.cov("trace_validation", map[string]interface{}{"recorded_runs": len(runs), "accepted_by_TraceSem": n})
	}
	// (b) the same program in many FRESH processes: Go's per-process map seeds play the role of the schedule
	var wg sync.WaitGroup
	var mu sync.Mutex
	sem := make(chan struct{}, runtime.NumCPU())
	var runs int64
	for i := range progs {
		wg.Add(1)
		sem <- struct{}{}
		go func(i int) {
			defer wg.Done()
			defer func() { <-sem }()
			p := progs[i]
			f := filepath.Join(c.Work, fmt.Sprintf("det_%d.bn", i))
			os.WriteFile(f, []byte(p.src), 0644)
			defer os.Remove(f)
			var ref string
			for k := 0; k < rFresh; k++ {
				r := c.runCLI([]string{f}, p.stdin, 20*time.Second)
				obs := fmt.Sprintf("exit=%d out=%q first-diag=%q", r.Exit, maskClock(r.Out), firstDiag(r.Err))
				mu.Lock()
				runs++
				mu.Unlock()
				if k == 0 {
					ref = obs
					if p.rec != nil {
						if what, detail := compareSemCLI(p.rec, &r, &SemOpts{}); what != "" {
							mu.Lock()
							c.violation("C13|fresh-process|"+p.rec.Fam+"|"+what, p.key, map[string]interface{}{"mode": "cli", "src": p.src, "detail": detail})
							mu.Unlock()
						}
					}
					continue
				}
				if obs != ref {
					mu.Lock()
					c.violation("C13|fresh-process|"+strings.SplitN(p.key, ":", 2)[0]+"|differs-between-processes", p.key, map[string]interface{}{"mode": "cli", "src": p.src, "stdin": p.stdin,
						"detail": fmt.Sprintf("run 1: %s ; run %d: %s", clip(ref, 300), k+1, clip(obs, 300))})
					mu.Unlock()
					break
				}
			}
		}(i)
	}
	wg.Wait()
	c.addInt("traces_validated_against_impl", runs+int64(len(progs)*rSame))
	c.addInt("evaluations", runs+int64(len(progs)*rSame))
	c.addInt("distinct_nontrivial", int64(len(progs)))
	c.cov("programs", len(progs))
	c.cov("repetitions", map[string]int{"fresh_processes": rFresh, "same_process": rSame})
	c.cov("exhaustive", false)
	c.cov("rule", "programs already executed by the specification (object / evaluation-order / call / random families: object literals with side-effecting initialisers, key and value listings, printed objects), programs that rebind built-in names, and the 8 shipped examples (clock value masked, fixed stdin); each run rSame times in one process and rFresh times in fresh processes; all observations (stdout bytes, exit status, first diagnostic) must be identical and equal to the specification's single behaviour; TLC reports a maximal out-degree of 1 for the abstract machine on these families (the specification itself is deterministic). Go's map randomisation cannot be driven from outside: in the code the schedule is sampled (a 2-key order flips in >= 13% of processes, so a dependence survives 24 runs with probability < 4%, 200 runs < 1e-12), in the model it is absent by construction")
	c.Ev.Assumptions = []string{"Go's hash seed differs between processes and between map instances; it cannot be scheduled, only sampled"}
}

func firstDiag(stderr string) string {
	ls := strings.Split(stderr, "\n")
	if len(ls) >= 2 && strings.HasPrefix(ls[1], "[line ") {
		return ls[0] + " " + ls[1]
	}
	return ls[0]
}

// ------------------------------------------------------------------------------------------------ C18

var bindingNames = []string{"alpha", "b2", "_x", "\u09a8\u09be\u09ae", "\u09ae\u09be\u09a8_\u09e7", "\u0997\u09a3\u09a8\u09be", "\u0995\u0996\u0997",
	"\u09b8\u09ae\u09df", // precomposed U+09DF: NFC would rewrite this name
	"q9_", "Zed",
	"\u09ac\u09df\u09b8", // U+09DF again
	"\u09ab\u09b2",
	"\u09dc\u09dd",             // U+09DC U+09DD (composition exclusions)
	"\u0995\u09c7\u09be",       // U+09C7 U+09BE: NFC composes these two marks to U+09CB
	"e\u0301x"}                   // e + combining acute

func isPropName(toks []string, i int) bool {
	if i > 0 && toks[i-1] == "." {
		return true
	}
	if i+1 < len(toks) && toks[i+1] == ":" {
		return true
	}
	return false
}

// seqPositions: indices of "L:n" markers that start a statement in a statement SEQUENCE (not a lone branch / loop body)
func seqPositions(toks []string) []int {
	var out []int
	prev := ""
	for i, t := range toks {
		if strings.HasPrefix(t, "L:") {
			if prev == "" || prev == ";" || prev == "{" || prev == "}" {
				out = append(out, i)
			}
			continue
		}
		prev = t
	}
	return out
}

type transform struct {
	name     string
	apply    func(toks []string, rng *rand.Rand) ([]string, *RenderOpts, bool)
	keepLine bool
}

func tokensCopy(t []string) []string { return append([]string(nil), t...) }

func layoutSource(toks []string, rng *rand.Rand, o *RenderOpts) string {
	seps := []string{" ", "  ", "\t", " \t ", " /* c */ ", "/**/", "\n", "\n\n", " // note\n", "\r\n", " /* multi\nline */ ", "/***/", " /** doc **/ ", " /* a * b ** c */ ", " /*/ x /*/ ", " //\n"}
	sameLine := []string{" ", "  ", "\t", " /* c */ ", "/**/ "}
	var b strings.Builder
	inVar := false
	for i, t := range toks {
		if strings.HasPrefix(t, "L:") {
			continue
		}
		txt, _ := Render([]string{t}, o)
		txt = strings.TrimSuffix(txt, "\n")
		if i > 0 {
			sep := seps[rng.Intn(len(seps))]
			if inVar {
				sep = sameLine[rng.Intn(len(sameLine))]
			}
			if strings.HasPrefix(sep, "/") && strings.HasSuffix(b.String(), "/") {
				sep = " " + sep // "/" directly followed by a comment opener would itself open a comment
			}
			b.WriteString(sep)
		}
		b.WriteString(txt)
		if t == "K:var" {
			inVar = true
		} else if t == ";" {
			inVar = false
		}
	}
	b.WriteString([]string{"\n", "", " // end", " /* end */", "\n \t", "\n// end\n", "\r\n"}[rng.Intn(7)])
	return b.String()
}

func parenTransform(toks []string, rng *rand.Rand) ([]string, *RenderOpts, bool) {
		var out []string
		n := 0
		for i := 0; i < len(toks); i++ {
			t := toks[i]
			isLit := strings.HasPrefix(t, "N:") || strings.HasPrefix(t, "S:") || t == "K:true" || t == "K:false" || t == "K:nil"
			if isLit && rng.Intn(2) == 0 {
				d := 1 + rng.Intn(3)
				for k := 0; k < d; k++ {
					out = append(out, "(")
				}
				out = append(out, t)
				for k := 0; k < d; k++ {
					out = append(out, ")")
				}
				n++
				continue
			}
			// the condition of if / while: ( cond )  ->  ( ( cond ) )
			if (t == "K:if" || t == "K:while") && i+1 < len(toks) && toks[i+1] == "(" {
				depth, j := 0, i+1
				for ; j < len(toks); j++ {
					if toks[j] == "(" {
						depth++
					} else if toks[j] == ")" {
						depth--
						if depth == 0 {
							break
						}
					}
				}
				if j < len(toks) && rng.Intn(2) == 0 {
					out = append(out, t, "(", "(")
					sub, _, _ := parenTransform(toks[i+2:j], rng)
					out = append(out, sub...)
					out = append(out, ")", ")")
					i = j
					n++
					continue
				}
			}
			out = append(out, t)
		}
		return out, nil, n > 0
	}

var transforms = []transform{
	{"c:synonyms", func(toks []string, rng *rand.Rand) ([]string, *RenderOpts, bool) {
		out := tokensCopy(toks)
		n := 0
		for i, t := range out {
			switch t {
			case "K:and":
				if rng.Intn(2) == 0 {
					out[i] = "&&"
				}
				n++
			case "&&":
				if rng.Intn(2) == 0 {
					out[i] = "K:and"
				}
				n++
			case "K:or":
				if rng.Intn(2) == 0 {
					out[i] = "||"
				}
				n++
			case "||":
				if rng.Intn(2) == 0 {
					out[i] = "K:or"
				}
				n++
			}
		}
		return out, nil, n > 0
	}, true},
	{"b:digits", func(toks []string, rng *rand.Rand) ([]string, *RenderOpts, bool) {
		out := tokensCopy(toks)
		n := 0
		for i, t := range out {
			if strings.HasPrefix(t, "N:") {
				lit, err := canonToLiteral(t[2:])
				if err != nil {
					continue
				}
				var b strings.Builder
				for _, r := range lit {
					if r >= '0' && r <= '9' && rng.Intn(2) == 0 {
						b.WriteRune(0x09E6 + (r - '0'))
					} else {
						b.WriteRune(r)
					}
				}
				out[i] = "R:" + b.String()
				n++
			}
		}
		return out, nil, n > 0
	}, true},
	{"d:rename", func(toks []string, rng *rand.Rand) ([]string, *RenderOpts, bool) {
		ren := map[string]string{}
		perm := rng.Perm(len(bindingNames))
		k := 0
		for i, t := range toks {
			if strings.HasPrefix(t, "I:") && !isPropName(toks, i) {
				n := t[2:]
				if _, isB := builtinSpelling[n]; isB {
					continue
				}
				if _, ok := ren[n]; !ok && k < len(perm) {
					ren[n] = bindingNames[perm[k]]
					k++
				}
			}
		}
		// property names keep their spelling: render them raw
		out := tokensCopy(toks)
		for i, t := range out {
			if strings.HasPrefix(t, "I:") && isPropName(toks, i) {
				if _, isB := builtinSpelling[t[2:]]; !isB {
					out[i] = "R:" + t[2:]
				}
			}
		}
		return out, &RenderOpts{Rename: ren}, len(ren) > 0
	}, true},
	{"e:parentheses", parenTransform, true},
	{"f:dead-code", func(toks []string, rng *rand.Rand) ([]string, *RenderOpts, bool) {
		pos := seqPositions(toks)
		if len(pos) == 0 {
			return toks, nil, false
		}
		dead := [][]string{
			{"K:if", "(", "K:false", ")", "{", "K:print", "S:dead", ";", "I:undefined_name", "(", ")", ";", "}"},
			{"K:fun", "I:unused_fn", "(", "I:p", ")", "{", "K:print", "S:never", ";", "K:return", "I:p", ";", "}"},
			{"K:if", "(", "N:0", ")", "K:print", "N:1e0", "/", "N:0", ";"},
			{"K:while", "(", "K:nil", ")", "{", "K:break", ";", "}"},
		}
		ins := map[int][]string{}
		for k := 0; k < 1+rng.Intn(3); k++ {
			ins[pos[rng.Intn(len(pos))]] = dead[rng.Intn(len(dead))]
		}
		var out []string
		for i, t := range toks {
			if d, ok := ins[i]; ok {
				out = append(out, d...)
			}
			out = append(out, t)
		}
		return out, nil, true
	}, false},
	{"a:one-line", func(toks []string, rng *rand.Rand) ([]string, *RenderOpts, bool) {
		// the whole program on a single line (line tokens dropped): every name of the program is read "on line 1"
		var out []string
		for _, t := range toks {
			if !strings.HasPrefix(t, "L:") {
				out = append(out, t)
			}
		}
		return out, nil, len(out) < len(toks)
	}, false},
	{"a:layout", nil, false},
}

func checkC18(c *Ctx) {
	sel := []corpusSpec{{"FamControl", "FamControl_quick.cfg", 6, ""}, {"FamCalls", "FamCalls_quick.cfg", 2, ""}, {"FamFaults", "FamFaults_quick.cfg", 3, ""}, {"FamArrays", "FamArrays_quick.cfg", 12, ""},
		{"FamObjects", "FamObjects_quick.cfg", 12, ""}, {"FamOrder", "FamOrder_quick.cfg", 2, ""}, {"FamScope", "FamScope_quick.cfg", 12, ""}, {"FamOps", "FamOps_quick.cfg", 60, "^chain"}, {"FamPrint", "FamPrint_quick.cfg", 3, ""}, {"FamGen", "FamGen_quick.cfg", 3, ""}}
	reps := 1
	if c.Tier == "thorough" {
		sel = []corpusSpec{{"FamControl", "FamControl_quick.cfg", 1, ""}, {"FamCalls", "FamCalls_quick.cfg", 1, ""}, {"FamFaults", "FamFaults_quick.cfg", 1, ""}, {"FamArrays", "FamArrays_quick.cfg", 2, ""},
			{"FamObjects", "FamObjects_quick.cfg", 2, ""}, {"FamOrder", "FamOrder_quick.cfg", 1, ""}, {"FamScope", "FamScope_quick.cfg", 2, ""}, {"FamWild", "FamWild_quick.cfg", 3, ""}, {"FamOps", "FamOps_quick.cfg", 8, "^chain"}, {"FamPrint", "FamPrint_quick.cfg", 1, ""}, {"FamGen", "FamGen_quick.cfg", 1, ""}}
		reps = 4
	}
	corpus := c.loadCorpus(sel, func(r *SemRec) bool {
		// printed function values quote the (renamed) name: keep them out of the renaming comparison by skipping such programs
		for _, o := range r.Out {
			if containsFn(&o.V) {
				return false
			}
		}
		return true
	})
	rng := rand.New(rand.NewSource(int64(c.Seed) * 7919))
	type tcase struct {
		rec  *SemRec
		name string
		src  string
		keep bool
	}
	var tcs []tcase
	for _, rec := range corpus {
		for rep := 0; rep < reps; rep++ {
			// each single transformation, then a random combination
			for ti, tf := range transforms {
				toks := rec.Toks
				var o *RenderOpts
				ok := true
				if tf.apply != nil {
					toks, o, ok = tf.apply(rec.Toks, rng)
				}
				if !ok {
					continue
				}
				var src string
				if ti == len(transforms)-1 {
					src = layoutSource(toks, rng, o)
				} else {
					src, _ = Render(toks, o)
				}
				tcs = append(tcs, tcase{rec, tf.name, src, tf.keepLine})
			}
			if len(rec.Full) > 0 && rep == 0 {
				// (e) the two parenthesisations of one tree: only the parentheses the grammar needs / every one it allows
				s1, _ := Render(rec.Toks, nil)
				s2, _ := Render(rec.Full, nil)
				tcs = append(tcs, tcase{rec, "e:minimal-parentheses", s1, true}, tcase{rec, "e:full-parentheses", s2, true})
			}
			toks := rec.Toks
			ro := &RenderOpts{}
			names := []string{}
			for _, ti := range rng.Perm(5)[:2+rng.Intn(3)] {
				t2, o2, ok := transforms[ti].apply(toks, rng)
				if ok {
					toks = t2
					if o2 != nil && o2.Rename != nil {
						ro.Rename = o2.Rename
					}
					names = append(names, transforms[ti].name[:1])
				}
			}
			sort.Strings(names)
			tcs = append(tcs, tcase{rec, "combo:" + strings.Join(names, "") + "+a", layoutSource(toks, rng, ro), false})
		}
	}
	cases := make(chan *Case, 256)
	go func() {
		for i, t := range tcs {
			cases <- &Case{ID: i, Mode: "run", Src: t.src, Stdin: stdinText(t.rec.Stdin), Fuel: 3000 + 80*t.rec.Steps}
		}
		close(cases)
	}()
	var n int64
	c.Pool.Run(cases, func(cs *Case, r *Result) {
		t := tcs[cs.ID]
		n++
		o := &SemOpts{IgnoreLines: !t.keep, SkipNatlog: false}
		if n%3000 == 1 {
			c.sample(map[string]interface{}{"transformation": t.name, "original": t.rec.Fam + ":" + t.rec.Key, "transformed_source": clip(t.src, 600)})
		}
		if what, detail := compareSem(t.rec, r, o); what != "" {
			c.violation("C18|"+strings.SplitN(t.name, ":", 2)[0]+"|"+t.rec.Fam+"|"+what, t.rec.Key+" under "+t.name, map[string]interface{}{"mode": "run", "src": t.src, "stdin": cs.Stdin,
				"expected": t.rec, "detail": detail, "observed": map[string]interface{}{"out": r.Out, "err": r.Err, "events": r.Events, "panic": r.Panic}})
		}
	})
	c.addInt("traces_validated_against_impl", n)
	c.addInt("evaluations", n)
	c.addInt("distinct_nontrivial", int64(len(corpus)))
	// (e) once more, without reference to the specification: the operator matrix in minimal and in full parentheses, each pair
	// compared with itself (a choice the specification leaves open must at least be the same choice in both writings)
	if np := c.parenPairs(filepath.Join(c.Work, "corpus_FamOps.ndjson"), 3); np > 0 {
		c.addInt("traces_validated_against_impl", np)
	}
	ne := c.metaExamples(rng)
	c.addInt("traces_validated_against_impl", ne)
	c.cov("programs", len(corpus))
	c.cov("exhaustive", false)
	c.cov("rule", "programs already executed by the specification (control, calls, faults, arrays, objects, evaluation order, scopes; thorough: random programs) and the shipped examples x the transformation families (a) blanks / tabs / line and block comments / line breaks between any two tokens except inside a var declaration, (b) digits of numeric literals swapped per digit between scripts, (c) && / and, || / or exchanged, (d) consistent renaming of variables, functions and parameters to Latin or Bangla identifiers incl. ones that NFC would rewrite (property names are data and keep their spelling), (e) literals wrapped in 1-3 parentheses, doubled condition parentheses, and for the operator chains (every pair of binary operators in both groupings, unary around / inside binary, and/or chains) the minimally and the fully parenthesised rendering of the same tree, (f) if(false) blocks, unused functions and never-entered loops inserted at statement-sequence positions - each alone and in random combination; the transformed program must behave as the specification prescribes for the original (diagnostic lines are not compared when the layout changes)")
	c.Ev.Assumptions = []string{"the transformations are meaning-preserving by the language definition: each is applied on the token list of a program whose tree is known"}
}

// metaExamples: the shipped examples are tokenised with the real lexer, re-rendered under (a), (b), (c) and compared with
// their own original behaviour through the executable.
func (c *Ctx) metaExamples(rng *rand.Rand) int64 {
	var n int64
	for _, f := range exampleScripts() {
		b, _ := os.ReadFile(f)
		// tokens from the real lexer
		cases := make(chan *Case, 1)
		cases <- &Case{ID: 1, Mode: "lex", Src: string(b)}
		close(cases)
		var toks []string
		p1 := &Pool{N: 1, WorkDir: c.Work}
		p1.Run(cases, func(cs *Case, r *Result) {
			for _, t := range r.Toks {
				switch t.Ty {
				case "EOF":
				case "STRING":
					toks = append(toks, "S:"+intsToString(t.Str))
				case "NUMBER":
					lex := intsToString(t.Lex)
					var sb strings.Builder
					for _, ch := range lex {
						d := -1
						if ch >= '0' && ch <= '9' {
							d = int(ch - '0')
						} else if ch >= 0x09E6 && ch <= 0x09EF {
							d = int(ch - 0x09E6)
						}
						if d >= 0 && rng.Intn(2) == 0 {
							sb.WriteRune(rune(0x09E6 + d))
						} else if d >= 0 {
							sb.WriteRune(rune('0' + d))
						} else {
							sb.WriteRune(ch)
						}
					}
					toks = append(toks, "R:"+sb.String())
				case "LOGICAL_AND":
					toks = append(toks, []string{"&&", "K:and"}[rng.Intn(2)])
				case "LOGICAL_OR":
					toks = append(toks, []string{"||", "K:or"}[rng.Intn(2)])
				case "VAR":
					toks = append(toks, "K:var")
				default:
					toks = append(toks, "R:"+intsToString(t.Lex))
				}
			}
		})
		if len(toks) == 0 {
			continue
		}
		orig := filepath.Join(c.Work, "ex_orig.bn")
		os.WriteFile(orig, b, 0644)
		r0 := c.runCLI([]string{orig}, exampleStdin, 20*time.Second)
		for k := 0; k < 3; k++ {
			src := layoutSource(toks, rng, nil)
			tf := filepath.Join(c.Work, "ex_tf.bn")
			os.WriteFile(tf, []byte(src), 0644)
			r1 := c.runCLI([]string{tf}, exampleStdin, 20*time.Second)
			n++
			if maskClock(r1.Out) != maskClock(r0.Out) || r1.Exit != r0.Exit || (r0.Err == "") != (r1.Err == "") {
				c.violation("C18|example|"+filepath.Base(f)+"|abc", filepath.Base(f), map[string]interface{}{"mode": "cli", "src": src,
					"detail": fmt.Sprintf("original: exit %d out %q ; transformed: exit %d out %q err %q", r0.Exit, clip(r0.Out, 300), r1.Exit, clip(r1.Out, 300), clip(r1.Err, 200))})
				break
			}
		}
	}
	return n
}

func init() {
	checks["C13"] = checkC13
	checks["C18"] = checkC18
}

// containsFn: does a printed value show a function (whose text quotes its name) anywhere inside?
func containsFn(v *XVal) bool {
	if v.T == "fn" {
		return true
	}
	for i := range v.E {
		if containsFn(&v.E[i]) {
			return true
		}
	}
	for i := range v.Vs {
		if containsFn(&v.Vs[i]) {
			return true
		}
	}
	return false
}
