package main

// Pinned spellings (generated once from spec/BornoTokens.tla by tools; committed; never read from /repo).

var keywordSpelling = map[string]string{
	"fun": "\u09ab\u09be\u0982\u09b6\u09a8", // FUN
	"var": "\u09a7\u09b0\u09bf", // VAR
	"for": "\u09ab\u09b0", // FOR
	"if": "\u09af\u09a6\u09bf", // IF
	"else": "\u09a8\u09be\u09b9\u09df", // ELSE
	"while": "\u09af\u09a4\u0995\u09cd\u09b7\u09a3", // WHILE
	"true": "\u09b8\u09a4\u09cd\u09af", // TRUE
	"false": "\u09ae\u09bf\u09a5\u09cd\u09af\u09be", // FALSE
	"nil": "\u006e\u0069\u006c", // NIL
	"print": "\u09a6\u09c7\u0996\u09be\u0993", // PRINT
	"return": "\u09ab\u09c7\u09b0\u09a4", // RETURN
	"break": "\u09a5\u09be\u09ae\u09cb", // BREAK
	"continue": "\u099a\u09be\u09b2\u09bf\u09df\u09c7\u005f\u09af\u09be\u0993", // CONTINUE
	"and": "\u098f\u09ac\u0982", // LOGICAL_AND
	"or": "\u09ac\u09be", // LOGICAL_OR
}

var keywordType = map[string]string{
	"fun": "FUN",
	"var": "VAR",
	"for": "FOR",
	"if": "IF",
	"else": "ELSE",
	"while": "WHILE",
	"true": "TRUE",
	"false": "FALSE",
	"nil": "NIL",
	"print": "PRINT",
	"return": "RETURN",
	"break": "BREAK",
	"continue": "CONTINUE",
	"and": "LOGICAL_AND",
	"or": "LOGICAL_OR",
}

var builtinSpelling = map[string]string{
	"clock": "\u0995\u09cd\u09b2\u0995",
	"len": "\u09b2\u09c7\u09a8",
	"push": "\u098f\u09a1",
	"remove": "\u09b0\u09bf\u09ae\u09c1\u09ad",
	"delkey": "\u0995\u09bf\u005f\u09b0\u09bf\u09ae\u09c1\u09ad",
	"keys": "\u0985\u09ac\u09cd\u099c\u09c7\u0995\u09cd\u099f\u005f\u0995\u09bf",
	"values": "\u0985\u09ac\u09cd\u099c\u09c7\u0995\u09cd\u099f\u005f\u09ae\u09be\u09a8",
	"abs": "\u09aa\u09b0\u09ae\u09ae\u09be\u09a8",
	"sqrt": "\u09ac\u09b0\u09cd\u0997\u09ae\u09c2\u09b2",
	"pow": "\u0998\u09be\u09a4",
	"sin": "\u09b8\u09be\u0987\u09a8",
	"cos": "\u0995\u09b8\u09be\u0987\u09a8",
	"tan": "\u099f\u09cd\u09af\u09be\u09a8",
	"min": "\u09b8\u09b0\u09cd\u09ac\u09a8\u09bf\u09ae\u09cd\u09a8",
	"max": "\u09b8\u09b0\u09cd\u09ac\u09cb\u099a\u09cd\u099a",
	"round": "\u09b0\u09be\u0989\u09a8\u09cd\u09a1",
	"input": "\u0987\u09a8\u09aa\u09c1\u099f",
	"input_ascii": "input",
}
