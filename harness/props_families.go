package main

import (
	"encoding/json"
	"fmt"
	"os"
	"path/filepath"
	"strconv"
	"strings"
	"time"
)

// runSemFamily model-checks one program family with TLC (invariants + action properties of BornoSem and of the
// family), then replays every emitted terminal state into the real interpreter.
func (c *Ctx) runSemFamily(module, cfg string, o *SemOpts, timeout time.Duration) *SemStats {
	out := filepath.Join(c.Work, module+"_"+cfg+".ndjson")
	res := c.runTLC(TLCJob{Module: module, Cfg: cfg, OutFile: out, Timeout: timeout})
	if res.Err != "" {
		return nil
	}
	st := c.replaySemFile(out, o, 997)
	c.recordSem(module+"/"+cfg, st)
	c.lastFile = out
	return st
}

// genSlice: one slice of FamGen (seeded random well-behaved programs over scopes, loops, calls, closures, shared arrays and
// objects; the specification prescribes every output line) replayed with the full comparison, and a sample validated as traces.
func (c *Ctx) genSlice(slice int, o *SemOpts) {
	cfg := "FamGen_quick.cfg"
	if c.Tier == "thorough" {
		cfg = "FamGen_thorough.cfg"
	}
	out := filepath.Join(c.Work, fmt.Sprintf("FamGen_slice%d.ndjson", slice))
	res := c.runTLC(TLCJob{Module: "FamGen", Cfg: cfg, OutFile: out, Timeout: 40 * time.Minute, Consts: map[string]string{"Slice": strconv.Itoa(slice)}})
	if res.Err != "" {
		return
	}
	st := c.replaySemFile(out, o, 199)
	c.recordSem(fmt.Sprintf("FamGen/slice%d", slice), st)
	keep := c.lastFile
	c.traceValidate("gen", out, 8, 60)
	c.lastFile = keep
	c.cov("random_programs", "FamGen slice "+strconv.Itoa(slice)+": seeded random well-behaved programs (numbers kept small, indexes reduced modulo the length, divisors positive) over three numbers, three arrays (two aliased), two aliased objects, a pure, a summing and a parameter-writing function, two counter closures; nested blocks with shadowing locals, for / while with break and continue, local functions closing over what is in scope; every output line is prescribed")
}

func semAssumptions(c *Ctx) {
	c.Ev.Assumptions = []string{
		"TLC and the Host override (JVM IEEE-754 arithmetic, BigDecimal, Normalizer) are correct",
		"the specification BornoSem is the intended semantics (documentation-level reading, DESIGN.md 4)",
		"diagnostics and built-in invocations are observed through the verif-tagged hooks; stdout through a redirected file",
		"comparators are tolerant: diagnostic wording, delimiters of printed arrays/objects and property order are free",
	}
}

func checkC05(c *Ctx) {
	o := &SemOpts{}
	cfg := "FamControl_quick.cfg"
	if c.Tier == "thorough" {
		cfg = "FamControl_thorough.cfg"
	}
	if c.runSemFamily("FamControl", cfg, o, 40*time.Minute) != nil {
		c.traceValidate("control", c.lastFile, 3, 1200)
	}
	c.genSlice(5, o)
	c.runSemFamily("FamStress", "FamStress.cfg", o, 40*time.Minute) // thousands of iterations with break / continue and per-iteration locals
	c.cov("exhaustive", true)
	c.cov("rule", "every control skeleton of FamControl up to the nesting depth of the cfg (if/if-else over conditions of every truthiness kind, while, the 8 for shapes, blocks, break, continue, stray signals); one TLC initial state per program, each run to its terminal state by the abstract machine and replayed; non-trivial = prints something or fails")
	semAssumptions(c)
}

func init() {
	checks["C05"] = checkC05
	replayers["C05"] = replaySemCase(&SemOpts{})
}

func checkC02(c *Ctx) {
	o := &SemOpts{}
	cfg := "FamOps_quick.cfg"
	if c.Tier == "thorough" {
		cfg = "FamOps_thorough.cfg"
	}
	c.runSemFamily("FamOps", cfg, o, 40*time.Minute)
	c.cov("exhaustive", true)
	c.cov("rule", "every unary and binary operator x every ordered pair of the value pool of FamOps (all runtime kinds, boundary magnitudes), one program per cell, plus NRandom seeded random nested expressions; cells the documentation leaves open (numeric-looking string operands, inexact pow used as an operand) are emitted with status unspec and skipped; non-trivial = prints a value or raises an error")
	semAssumptions(c)
}

func init() {
	checks["C02"] = checkC02
	replayers["C02"] = replaySemCase(&SemOpts{})
}

func checkC14(c *Ctx) {
	o := &SemOpts{}
	if c.runSemFamily("FamOrder", "FamOrder_quick.cfg", o, 30*time.Minute) != nil {
		c.traceValidate("order", c.lastFile, 1, 1500)
	}
	c.genSlice(14, o)
	c.cov("exhaustive", true)
	c.cov("rule", "FamOrder: side-effecting probes P(tag, v) in every operand position of every operator, call, array/object literal, index, property and store form (depth 1 and 2), assignments used as expressions, and a falsy and a truthy representative of every value kind (literal and computed) under if / ! / or / and / while / for; non-trivial = at least one probe tag printed")
	semAssumptions(c)
}

func init() {
	checks["C14"] = checkC14
	replayers["C14"] = replaySemCase(&SemOpts{})
}

func checkC03(c *Ctx) {
	o := &SemOpts{}
	cfg := "FamScope_quick.cfg"
	if c.Tier == "thorough" {
		cfg = "FamScope_thorough.cfg"
	}
	if c.runSemFamily("FamScope", cfg, o, 60*time.Minute) != nil {
		c.traceValidate("scope", c.lastFile, 7, 1500)
		// the same programs written on ONE line: every name of a program is then read "on line 1" (diagnostic lines are not compared)
		keep := c.lastFile
		st := c.replaySemFile(keep, &SemOpts{IgnoreLines: true, Render: &RenderOpts{OneLine: true}}, 0)
		c.recordSem("FamScope/one-line", st)
	}
	c.genSlice(3, o)
	c.cov("exhaustive", true)
	c.cov("rule", "FamScope: every history of total size Budget (declare / declare without initialiser / assign / read over the colliding names a and b, nested blocks, one-iteration for (declaring a colliding name) and while, a function declaration with such a body, calls) that is inside the property's domain, plus NRandom seeded random longer histories; each site stores its own line number, each read prints; non-trivial = prints or fails")
	semAssumptions(c)
}

func init() {
	checks["C03"] = checkC03
	replayers["C03"] = replaySemCase(&SemOpts{})
}

func checkC04(c *Ctx) {
	o := &SemOpts{}
	cfg := "FamCalls_quick.cfg"
	if c.Tier == "thorough" {
		cfg = "FamCalls_thorough.cfg"
	}
	if c.runSemFamily("FamCalls", cfg, o, 60*time.Minute) != nil {
		c.traceValidate("calls", c.lastFile, 2, 1500)
	}
	c.genSlice(4, o)
	c.runSemFamily("FamStress", "FamStress.cfg", o, 40*time.Minute) // 5200 returns, recursion 1000 deep, 2600 iterations
	c.cov("exhaustive", true)
	c.cov("rule", "FamCalls: return (with value / bare / absent) at every nesting of if-then, if-else, block, while and for (hit in the first or a later iteration) up to CtxDepth; recursion (factorial with per-activation locals, fibonacci, mutual even/odd, Ackermann re-entering its own call site); every interleaving of <= HistLen calls to the two sibling closures of two counter instances; callee of every kind x 0..3 arguments; positional binding over all permutations of distinct arguments; functions stored in variables, arrays, objects and returned")
	semAssumptions(c)
}

func init() {
	checks["C04"] = checkC04
	replayers["C04"] = replaySemCase(&SemOpts{})
}

func checkC06(c *Ctx) {
	o := &SemOpts{}
	cfg := "FamFaults_quick.cfg"
	if c.Tier == "thorough" {
		cfg = "FamFaults_thorough.cfg"
	}
	if c.runSemFamily("FamFaults", cfg, o, 60*time.Minute) != nil {
		c.replaySemCLI(c.lastFile, o, 1, 8*time.Second)
		c.traceValidate("faults", c.lastFile, 1, 1200)
	}
	c.cov("exhaustive", true)
	c.cov("rule", "FamFaults: each of 23 expression faults (undefined read/assign, operand type, zero divisor, negative shift, index out of range/negative/fractional/non-array, missing property, property of non-object, non-callable, arity, failing built-ins) at each of 37 syntactic positions, plus redeclaration and stray break/continue/return at statement positions, x line paddings; each program prints before the fault and afterwards tries to print, prompt/read and read the clock, also inside while(true)/for(;;) loops; every program is replayed in-process (ordering of effects through hooks) and through the executable (exit status, streams)")
	semAssumptions(c)
}

func init() {
	checks["C06"] = checkC06
	replayers["C06"] = replaySemCase(&SemOpts{})
}

func checkC11(c *Ctx) {
	o := &SemOpts{}
	cfg := "FamArrays_quick.cfg"
	if c.Tier == "thorough" {
		cfg = "FamArrays_thorough.cfg"
	}
	if c.runSemFamily("FamArrays", cfg, o, 60*time.Minute) != nil {
		c.traceValidate("arrays", c.lastFile, 4, 1200)
	}
	c.genSlice(11, o)
	c.cov("exhaustive", true)
	c.cov("rule", "FamArrays: every history of <= HistLen well-indexed array operations on two variables with shared ancestry (new, alias, nest, write first/last, len in arithmetic, push 1/2 values into either variable, remove first/last into either variable, write through a parameter, read), each optionally followed by one bad-index operation (out of range, negative, fractional, string, nil, boolean, huge, array as index, non-array targets), plus NRandom seeded random histories of RandLen operations; both variables are printed after every step")
	semAssumptions(c)
}

func init() {
	checks["C11"] = checkC11
	replayers["C11"] = replaySemCase(&SemOpts{})
}

func checkC12(c *Ctx) {
	o := &SemOpts{}
	cfg := "FamObjects_quick.cfg"
	if c.Tier == "thorough" {
		cfg = "FamObjects_thorough.cfg"
	}
	if c.runSemFamily("FamObjects", cfg, o, 60*time.Minute) != nil {
		c.traceValidate("objects", c.lastFile, 4, 1500) // listing orders are resolved by the recorded run
	}
	c.genSlice(12, o)
	c.cov("exhaustive", true)
	c.cov("rule", "FamObjects: every history of <= HistLen object operations on two variables (literals with 0..3 keys in several orders, alias, write of new and existing keys, delete of present and absent keys, read of present and absent properties, nesting objects and arrays, write through a parameter), each optionally followed by one misuse (non-string key, `.` on number/array/string/nil, listing a non-object, arity), plus NRandom seeded random histories; after every step both objects are printed and keys/values are listed (keys twice): any listing order is accepted but it must be stable and keys and values must agree")
	semAssumptions(c)
}

func init() {
	checks["C12"] = checkC12
	replayers["C12"] = replaySemCase(&SemOpts{})
}

func checkC15(c *Ctx) {
	o := &SemOpts{Strict: true, SpliceMeta: true}
	cfg := "FamPrint_quick.cfg"
	if c.Tier == "thorough" {
		cfg = "FamPrint_thorough.cfg"
	}
	if c.runSemFamily("FamPrint", cfg, o, 60*time.Minute) != nil {
		every := 1
		if c.Tier == "thorough" {
			every = 20
		}
		c.replaySemCLI(c.lastFile, o, every, 10*time.Second)
		c.checkSeparators(c.lastFile)
	}
	c.cov("exhaustive", false)
	c.cov("rule", "FamPrint: each value of the pool (boundary and random doubles, powers of ten around the exponent switch, 15-17 digit values, +-Inf, NaN, int64 results of bitwise operators, strings over Latin, Bangla letters, combining marks, every Bangla code point with a canonical decomposition and the sequences composing to them, nil, booleans) printed alone, spliced by + on both sides, inside arrays/objects (nested), after index/property stores, through a parameter and a built-in; numbers are checked by relation (denotes exactly the value, shortest digits, integers below 10^6 plain), strings exactly (NFC), each print ends in exactly one newline; in-process and through the executable")
	semAssumptions(c)
}

func init() {
	checks["C15"] = checkC15
	replayers["C15"] = replaySemCase(&SemOpts{Strict: true, SpliceMeta: true})
}

func checkC16(c *Ctx) {
	// numeric-looking strings used as numbers are a two-valued cell (coerced or type error): every producer of the same
	// string must make the same choice in the same context
	choices := map[string]map[string]string{}
	o := &SemOpts{OnSoft: func(rec *SemRec, choice string) {
		i := strings.LastIndex(rec.Cls, "|")
		if i < 0 {
			return
		}
		ctx, prod := rec.Cls[:i], rec.Cls[i+1:]
		if choices[ctx] == nil {
			choices[ctx] = map[string]string{}
		}
		choices[ctx][prod] = choice
	}}
	c.runSemFamily("FamProducers", "FamProducers_quick.cfg", o, 60*time.Minute)
	nsoft := 0
	for ctx, m := range choices {
		first, firstProd := "", ""
		for prod, ch := range m {
			nsoft++
			if first == "" {
				first, firstProd = ch, prod
			} else if ch != first {
				c.violation("C16|producers|"+ctx+"|origin-dependent-coercion", ctx, map[string]interface{}{"detail": fmt.Sprintf("the string is %s when produced by %s but %s when produced by %s", first, firstProd, ch, prod), "choices": m})
				break
			}
		}
	}
	c.cov("soft_cells_checked_for_producer_consistency", nsoft)
	if c.Tier == "thorough" {
		// the number-printing family also compares literal / arithmetic / bitwise producers of many magnitudes
		c.runSemFamily("FamPrint", "FamPrint_thorough.cfg", &SemOpts{Strict: true, SpliceMeta: true}, 60*time.Minute)
	}
	c.cov("exhaustive", true)
	c.cov("rule", "FamProducers: every one-hole context (each operand position of each operator with a number and with a string partner, unary operators, if / while / or / and, index, index store, key argument, each built-in argument, printed alone / in an array / in an object, stored, callee, argument, return value) x every value (strings: empty, alphabetic, numeric-looking in both scripts, key name; numbers 0, 1, 3, 7, 2^20) x every producer (literal, concatenation, object property, property store, array element, function result, input; literal, arithmetic, &, |0, >>, round, abs, function, min, len, <<, **); all producers must behave as the single specification value does")
	semAssumptions(c)
}

func init() {
	checks["C16"] = checkC16
	replayers["C16"] = replaySemCase(&SemOpts{})
}

func checkC17(c *Ctx) {
	o := &SemOpts{}
	cfg := "FamMath_quick.cfg"
	if c.Tier == "thorough" {
		cfg = "FamMath_thorough.cfg"
	}
	c.runSemFamily("FamMath", cfg, o, 60*time.Minute)
	// clock: the current Unix time in seconds (the specification leaves the value open; the harness knows the time)
	f := filepath.Join(c.Work, "clock.bn")
	src, _ := Render([]string{"K:print", "I:clock", "(", ")", ";", "L:2", "K:print", "I:clock", "(", ")", "<=", "I:clock", "(", ")", ";"}, nil)
	os.WriteFile(f, []byte(src), 0644)
	t0 := float64(time.Now().UnixNano()) / 1e9
	r := c.runCLI([]string{f}, "", 10*time.Second)
	t1 := float64(time.Now().UnixNano()) / 1e9
	lines := strings.Split(strings.TrimSpace(r.Out), "\n")
	bad := ""
	if r.Exit != 0 || len(lines) != 2 {
		bad = fmt.Sprintf("exit %d, output %q, stderr %q", r.Exit, r.Out, clip(r.Err, 100))
	} else if v, err := strconv.ParseFloat(lines[0], 64); err != nil || v < t0-5 || v > t1+5 {
		bad = fmt.Sprintf("clock() printed %q, the Unix time is %.3f", lines[0], t0)
	} else if lines[1] != "true" {
		bad = "clock() went backwards"
	}
	if bad != "" {
		c.violation("C17|clock|value", "print clock();", map[string]interface{}{"mode": "cli", "src": src, "detail": bad})
	}
	// the clock is read anew at every call, also at ONE call site evaluated again and again: a stopwatch helper drives a
	// loop until 1.2 s have passed (a clock frozen per call site never leaves the loop)
	{
		f2 := filepath.Join(c.Work, "clock2.bn")
		src2, _ := Render([]string{"K:fun", "I:now", "(", ")", "{", "K:return", "I:clock", "(", ")", ";", "}",
			"L:2", "K:var", "I:a", "=", "I:now", "(", ")", ";", "L:3", "K:var", "I:n", "=", "N:0", ";",
			"L:4", "K:while", "(", "I:now", "(", ")", "-", "I:a", "<", "N:12e-1", ")", "{", "I:n", "=", "I:n", "+", "N:1e0", ";", "}",
			"L:5", "K:var", "I:b", "=", "I:now", "(", ")", ";", "L:6", "K:print", "I:b", "-", "I:a", ">=", "N:12e-1", ";", "L:7", "K:print", "I:b", "-", "I:a", "<", "N:1e1", ";", "L:8", "K:print", "I:n", ">", "N:0", ";"}, nil)
		os.WriteFile(f2, []byte(src2), 0644)
		r2 := c.runCLI([]string{f2}, "", 20*time.Second)
		if r2.Killed || r2.Exit != 0 || r2.Out != "true\ntrue\ntrue\n" {
			c.violation("C17|clock|advances", "stopwatch", map[string]interface{}{"mode": "cli", "src": src2,
				"detail": fmt.Sprintf("a loop waiting for 1.2 s on the clock: killed after 20 s = %v, exit %d, output %q, stderr %q", r2.Killed, r2.Exit, r2.Out, clip(r2.Err, 100))})
		}
	}
	c.addInt("traces_validated_against_impl", 2)
	c.cov("exhaustive", true)
	c.cov("rule", "FamMath: every built-in x 0..MaxArgs arguments x every combination of 8 argument kinds (pruned beyond arity+1); abs, sqrt, round, sin, cos, tan on 30 boundary values and NRandom seeded random doubles (abs, sqrt, round exactly; sin/cos within 4 ulp and tan within 32 ulp of fdlibm, exact at 0, NaN, Inf); pow on a 17x17 boundary grid, exact where every correct pow agrees and within 64 ulp otherwise, and pow(a,b) == a**b; min/max over all tuples of length <= 3 over 4 values (list and array form), signed zeros, empty and nested arrays; clock() against the harness clock")
	semAssumptions(c)
	c.Ev.Assumptions = append(c.Ev.Assumptions, "accuracy of the platform's math library: 4 ulp (sin, cos), 8 ulp (tan), 64 ulp (pow) relative to StrictMath (fdlibm)")
}

func init() {
	checks["C17"] = checkC17
	replayers["C17"] = replaySemCase(&SemOpts{})
}

func checkC07(c *Ctx) {
	o := &SemOpts{IgnoreOut: true, RunUnspec: true}
	wild, math := "FamWild_quick.cfg", "FamMath_quick.cfg"
	if c.Tier == "thorough" {
		wild, math = "FamWild_thorough.cfg", "FamMath_thorough.cfg"
	}
	c.runSemFamily("FamWild", wild, o, 60*time.Minute)
	c.runSemFamily("FamMath", math, o, 60*time.Minute)
	c.runSemFamily("FamOps", "FamOps_quick.cfg", o, 60*time.Minute)
	c.runSemFamily("FamCalls", "FamCalls_quick.cfg", o, 60*time.Minute)
	c.runSemFamily("FamFaults", "FamFaults_quick.cfg", o, 60*time.Minute)
	c.cov("exhaustive", false)
	c.cov("rule", "FamCalls (callees of every kind x argument counts, one call site reused with callees of other arity, recursion) and FamFaults (every fault kind at every position), FamWild (46 indexing / property / call / operator / built-in / statement forms x 20 values of every kind and boundary magnitude x 6 partner values, self-containing arrays and objects handed to every consumer, deep bracket / unary / call nesting and bounded recursion, seeded grammar-based random programs), FamMath (every built-in x argument count x kinds) and FamOps (operator matrix): every program must end normally or with a reported runtime error - a recovered Go panic, a fatal error that kills the worker process, or a hang is a violation; programs whose text output the specification leaves open are still run for crash-freedom")
	semAssumptions(c)
}

func init() {
	checks["C07"] = checkC07
	replayers["C07"] = replaySemCase(&SemOpts{IgnoreOut: true, RunUnspec: true})
}

// traceValidate records the real runs of (a sample of) the programs of a family file and validates them against
// TraceSem (direction 2: code -> specification).
func (c *Ctx) traceValidate(name, path string, every, max int) {
	var recs []*SemRec
	k := 0
	forEachLine(path, func(line []byte) error {
		var rec SemRec
		if json.Unmarshal(line, &rec) != nil || rec.Status == "fuel" {
			return nil
		}
		k++
		if (k+c.Seed)%every == 0 && len(recs) < max {
			recs = append(recs, &rec)
		}
		return nil
	})
	runs := c.recordTraces(recs)
	n := c.validateTraces(name, runs)
	c.corruptionControls(name, runs)
	tv, _ := c.Ev.Coverage["trace_validation"].([]interface{})
	c.Ev.Coverage["trace_validation"] = append(tv, map[string]interface{}{"family": name, "recorded_runs": len(runs), "accepted_by_TraceSem": n})
}

// corruptionControls: "a spec nothing binds to the code" check - a recorded run with one corrupted field, one dropped
// event or two swapped events must be REJECTED by TraceSem.  An accepted corruption is an infrastructure problem.
func (c *Ctx) corruptionControls(name string, runs []*TraceRun) {
	var pick *TraceRun
	for _, r := range runs {
		prints := 0
		for _, e := range r.Events {
			if e.Ev == "print" {
				prints++
			}
		}
		if prints >= 2 && r.Events[len(r.Events)-1].Status != "abnormal" {
			pick = r
			break
		}
	}
	if pick == nil {
		return
	}
	clone := func() *TraceRun {
		b, _ := json.Marshal(pick.Events)
		var ev []TraceEv
		json.Unmarshal(b, &ev)
		return &TraceRun{Prog: pick.Prog, Stdin: pick.Stdin, Repl: pick.Repl, Events: ev, key: pick.key}
	}
	firstPrint := func(r *TraceRun) int {
		for i, e := range r.Events {
			if e.Ev == "print" {
				return i
			}
		}
		return 0
	}
	a := clone() // one corrupted field
	a.Events[firstPrint(a)].V = map[string]interface{}{"t": "str", "s": []int{99, 111, 114, 114, 117, 112, 116}}
	b := clone() // one dropped event
	i := firstPrint(b)
	b.Events = append(b.Events[:i], b.Events[i+1:]...)
	d := clone() // a duplicated event (an effect that the specification does not allow twice)
	i = firstPrint(d)
	d.Events = append(d.Events[:i+1], d.Events[i:]...)
	rejected := 0
	for _, r := range []*TraceRun{a, b, d} {
		nv := len(c.Viol)
		seen := c.violSeen
		c.violSeen = map[string]int{}
		ok := c.validateTraces("corruption-control", []*TraceRun{r})
		c.Viol = c.Viol[:nv]
		c.violSeen = seen
		if ok == 0 {
			rejected++
		} else {
			c.addInt("traces_checked_against_spec", -1)
			c.addInt("traces_validated_against_impl", -1)
		}
	}
	cc, _ := c.Ev.Coverage["trace_corruption_controls"].([]interface{})
	c.Ev.Coverage["trace_corruption_controls"] = append(cc, map[string]interface{}{"family": name, "corrupted_traces": 3, "rejected_by_TraceSem": rejected})
	if rejected != 3 {
		c.infra("trace validation does not bind: %d of 3 corrupted traces of %s were accepted", 3-rejected, pick.key)
	}
}

// checkSeparators: the delimiters of printed arrays are free but uniform.  The "seps" program of FamPrint prints [], ["a"]
// and ["a","b"] first; from those three lines the opening, closing and separating text are learned, and every later line
// (arrays of strings with empty strings in every position, nested) is then determined character by character.
func (c *Ctx) checkSeparators(path string) {
	forEachLine(path, func(line []byte) error {
		var rec SemRec
		if json.Unmarshal(line, &rec) != nil || !strings.HasPrefix(rec.Key, "seps:") || rec.Status != "done" {
			return nil
		}
		src, _ := Render(rec.Toks, nil)
		cases := make(chan *Case, 1)
		cases <- &Case{ID: 1, Mode: "run", Src: src, Fuel: 100000}
		close(cases)
		c.Pool.Run(cases, func(cs *Case, r *Result) {
			lines := strings.Split(strings.TrimSuffix(r.Out, "\n"), "\n")
			fail := func(what, detail string) {
				c.violation("C15|print|separators|"+what, rec.Key, map[string]interface{}{"mode": "run", "src": src, "detail": detail, "observed": map[string]interface{}{"out": r.Out, "err": r.Err}})
			}
			if r.Panic != "" || r.Crash != "" || len(lines) != len(rec.Out) {
				fail("line-count", fmt.Sprintf("%d lines expected, got %q", len(rec.Out), clip(r.Out, 300)))
				return
			}
			// line 0 = O C ; line 1 = O a C ; line 2 = O a S b C
			i := strings.Index(lines[1], "a")
			if i < 0 {
				fail("learning", "the one-element array does not show its element: "+lines[1])
				return
			}
			open, clos := lines[1][:i], lines[1][i+1:]
			if lines[0] != open+clos || !strings.HasPrefix(lines[2], open+"a") || !strings.HasSuffix(lines[2], "b"+clos) || len(lines[2]) < len(open)+len(clos)+2 {
				fail("learning", fmt.Sprintf("opening / closing text differ between %q, %q and %q", lines[0], lines[1], lines[2]))
				return
			}
			sep := lines[2][len(open)+1 : len(lines[2])-len(clos)-1]
			var text func(v *XVal) string
			text = func(v *XVal) string {
				if v.T == "str" {
					return intsToString(v.S) // the specification's snapshot is NFC already
				}
				parts := make([]string, len(v.E))
				for k := range v.E {
					parts[k] = text(&v.E[k])
				}
				return open + strings.Join(parts, sep) + clos
			}
			for k := 3; k < len(rec.Out); k++ {
				if want := text(&rec.Out[k].V); lines[k] != want {
					fail("not-uniform", fmt.Sprintf("output line %d is %q; with the delimiters %q %q %q shown by the first three lines it must be %q", k+1, lines[k], open, sep, clos, want))
					return
				}
			}
		})
		return nil
	})
}
