package main

import (
	"encoding/json"
	"fmt"
	"os"
	"path/filepath"
	"regexp"
	"runtime"
	"sort"
	"strconv"
	"strings"
	"sync"
	"time"
)

// ---- comparison of a specification tree (JSON emitted by TLC) with the abstracted real AST

func sget(m map[string]interface{}, k string) string { s, _ := m[k].(string); return s }
func kids(m map[string]interface{}) []interface{}  { c, _ := m["c"].([]interface{}); return c }

func intsOf(v interface{}) []int {
	a, _ := v.([]interface{})
	o := make([]int, len(a))
	for i, x := range a {
		f, _ := x.(float64)
		o[i] = int(f)
	}
	return o
}

func realInts(v interface{}) []int {
	switch a := v.(type) {
	case []int:
		return a
	case []interface{}:
		return intsOf(a)
	}
	return nil
}

// treeDiff returns "" if the real AST (abstract.go, possibly after a JSON round trip) has the shape of the
// specification tree, otherwise a path-qualified description of the first difference.
func treeDiff(spec map[string]interface{}, real map[string]interface{}, path string) string {
	sk, rk := sget(spec, "k"), sget(real, "k")
	if sk != rk {
		return fmt.Sprintf("%s: expected node %s, got %s", path, sk, rk)
	}
	switch sk {
	case "none", "break", "continue":
		return ""
	case "lit":
		v, _ := spec["v"].(map[string]interface{})
		st := sget(v, "t")
		if st != sget(real, "t") {
			return fmt.Sprintf("%s: literal of type %s, got %s", path, st, sget(real, "t"))
		}
		switch st {
		case "num":
			wb, ok := canonBits(sget(v, "n"))
			if !ok || fmt.Sprintf("%016x", wb) != sget(real, "bits") {
				return fmt.Sprintf("%s: number %s, got bits %s", path, sget(v, "n"), sget(real, "bits"))
			}
		case "str":
			if !eqInts(intsOf(v["s"]), realInts(real["s"])) {
				return path + ": string literal differs"
			}
		case "bool":
			if v["b"] != real["b"] {
				return path + ": boolean literal differs"
			}
		}
		return ""
	case "id", "asg", "pasg", "prop", "var", "fun":
		if spellIdent(sget(spec, "name"), nil) != sget(real, "name") {
			return fmt.Sprintf("%s: name %q, got %q", path, sget(spec, "name"), sget(real, "name"))
		}
		if sk == "fun" {
			sp, _ := spec["params"].([]interface{})
			rp, _ := real["params"].([]interface{})
			if len(sp) != len(rp) {
				return fmt.Sprintf("%s: %d parameters, got %d", path, len(sp), len(rp))
			}
			for i := range sp {
				if spellIdent(sp[i].(string), nil) != rp[i].(string) {
					return fmt.Sprintf("%s: parameter %d differs", path, i)
				}
			}
		}
	case "un", "bin", "log":
		if sget(spec, "op") != sget(real, "op") {
			return fmt.Sprintf("%s: operator %s, got %s", path, sget(spec, "op"), sget(real, "op"))
		}
	case "obj":
		keys, _ := spec["keys"].([]interface{})
		props, _ := real["props"].(map[string]interface{})
		sc := kids(spec)
		seen := map[string]bool{}
		for i, k := range keys {
			name := spellIdent(k.(string), nil)
			seen[name] = true
			last := i
			for j := i + 1; j < len(keys); j++ { // duplicate key: the last one wins
				if keys[j] == k {
					last = j
				}
			}
			rv, ok := props[name].(map[string]interface{})
			if !ok {
				return fmt.Sprintf("%s: property %s missing", path, name)
			}
			if last == i {
				if d := treeDiff(sc[i].(map[string]interface{}), rv, path+"."+name); d != "" {
					return d
				}
			}
		}
		if len(seen) != len(props) {
			return fmt.Sprintf("%s: %d properties, got %d", path, len(seen), len(props))
		}
		return ""
	}
	sc, rc := kids(spec), kids(real)
	if len(sc) != len(rc) {
		return fmt.Sprintf("%s (%s): %d children, got %d", path, sk, len(sc), len(rc))
	}
	for i := range sc {
		sm, _ := sc[i].(map[string]interface{})
		rm, _ := rc[i].(map[string]interface{})
		if d := treeDiff(sm, rm, fmt.Sprintf("%s/%s[%d]", path, sk, i)); d != "" {
			return d
		}
	}
	return ""
}

func toMap(v interface{}) map[string]interface{} {
	b, _ := json.Marshal(v)
	var m map[string]interface{}
	json.Unmarshal(b, &m)
	return m
}

// renderPerLine puts every token on its own line, except that a `var` declaration stays on one line up to its `;`
// (the parser has an undocumented line-break rule there, outside the property's domain).  Returns the text
// (newline-terminated, so that end of input is on line n+1) and the line of every token.
func renderPerLine(toks []string) (string, []int) {
	var b strings.Builder
	lines := make([]int, len(toks))
	line := 1
	inVar := false
	for i, t := range toks {
		txt, _ := Render([]string{t}, nil)
		txt = strings.TrimSuffix(txt, "\n")
		lines[i] = line
		b.WriteString(txt)
		if t == "K:var" {
			inVar = true
		}
		if inVar && t != ";" {
			b.WriteByte(' ')
		} else {
			inVar = false
			b.WriteByte('\n')
			line++
		}
	}
	if inVar {
		b.WriteByte('\n')
		line++
	}
	return b.String(), lines
}

type PrefixRec struct {
	Toks   []string               `json:"toks"`
	Accept bool                   `json:"accept"`
	Next   []int                  `json:"next"`
	Alpha  []string               `json:"alpha"`
	Tree   map[string]interface{} `json:"tree"`
}

type parseExp struct {
	toks   []string
	accept bool
	errTok int // 0-based index of the offending token; len(toks) = at end of input
	atLeast bool // invalid assignment target: the diagnostic may come at or after errTok
	tree   map[string]interface{}
	fam    string
}

func hasTrailingCommaBrace(t []string) bool {
	for i := 0; i+1 < len(t); i++ {
		if t[i] == "," && t[i+1] == "}" {
			return true
		}
	}
	return false
}

func (c *Ctx) judgeParse(e *parseExp, r *Result, lines []int, nlines int) {
	key := strings.Join(e.toks, " ")
	cls := "len" + fmt.Sprint(len(e.toks))
	rep := func(what, detail string) {
		c.violation(c.Prop+"|"+e.fam+"|"+cls+"|"+what, key, map[string]interface{}{"mode": "parse", "toks": e.toks, "accept": e.accept, "errTok": e.errTok, "detail": detail,
			"observed": map[string]interface{}{"events": r.Events, "panic": r.Panic, "crash": r.Crash, "hadError": r.HadErr}})
	}
	if r.Crash != "" {
		rep("crash", clip(r.Crash, 300))
		return
	}
	if r.Panic != "" {
		rep("panic", clip(r.Panic, 300))
		return
	}
	dl := staticDiagLines(r)
	if e.accept {
		if len(dl) > 0 || r.HadErr {
			rep("rejected-valid", fmt.Sprintf("valid program rejected, first diagnostic at line %v", dl))
			return
		}
		if e.tree != nil {
			if r.Ast == nil {
				rep("no-tree", "no syntax tree returned")
				return
			}
			if d := treeDiff(e.tree, toMap(r.Ast), ""); d != "" {
				rep("tree", d)
			}
		}
		return
	}
	if len(dl) == 0 || !r.HadErr {
		rep("accepted-invalid", fmt.Sprintf("invalid text accepted (offending token %d)", e.errTok))
		return
	}
	want := nlines + 1
	if e.errTok < len(e.toks) {
		want = lines[e.errTok]
	}
	if dl[0] < 1 || dl[0] > nlines+1 {
		rep("diag-line-outside-text", fmt.Sprintf("first diagnostic names line %d, the text has %d lines", dl[0], nlines))
		return
	}
	if dl[0] != want && !(e.atLeast && dl[0] >= want) {
		tok := "end of input"
		if e.errTok < len(e.toks) {
			tok = e.toks[e.errTok]
		}
		rep("diag-line", fmt.Sprintf("first diagnostic at line %d, the first offending token (%s) is on line %d", dl[0], tok, want))
	}
}

// replayPrefixFile expands every viable prefix by every token of the alphabet and by end of input.
func (c *Ctx) replayPrefixFile(path string) (int64, int64) {
	var alpha []string
	forEachLine(path, func(line []byte) error {
		if alpha == nil && strings.Contains(string(line), `"toks":[]`) {
			var rec PrefixRec
			if json.Unmarshal(line, &rec) == nil && len(rec.Alpha) > 0 {
				alpha = rec.Alpha
			}
		}
		return nil
	})
	if alpha == nil {
		c.infra("prefix file has no alphabet record")
		return 0, 0
	}
	cases := make(chan *Case, 1024)
	type pend struct {
		e      *parseExp
		lines  []int
		nlines int
	}
	exps := map[int]*pend{}
	var n, accepted int64
	go func() {
		id := 0
		send := func(e *parseExp) {
			if hasTrailingCommaBrace(e.toks) {
				return
			}
			src, lines := renderPerLine(e.toks)
			nl := strings.Count(src, "\n")
			id++
			c.Pool.mu.Lock()
			exps[id] = &pend{e, lines, nl}
			c.Pool.mu.Unlock()
			cases <- &Case{ID: id, Mode: "parse", Src: src, WantA: e.accept}
		}
		forEachLine(path, func(line []byte) error {
			var rec PrefixRec
			if err := json.Unmarshal(line, &rec); err != nil {
				c.infra("bad prefix record: %v", err)
				return nil
			}
			e := &parseExp{toks: rec.Toks, accept: rec.Accept, errTok: len(rec.Toks), fam: "prefix"}
			if rec.Accept {
				e.tree = rec.Tree
			}
			send(e)
			nx := map[int]bool{}
			for _, k := range rec.Next {
				nx[k] = true
			}
			for k := 1; k <= len(alpha); k++ {
				if nx[k] {
					continue
				}
				t := append(append([]string(nil), rec.Toks...), alpha[k-1])
				send(&parseExp{toks: t, accept: false, errTok: len(rec.Toks), atLeast: alpha[k-1] == "=", fam: "extension"})
			}
			return nil
		})
		close(cases)
	}()
	err := c.Pool.Run(cases, func(cs *Case, r *Result) {
		p := exps[cs.ID]
		delete(exps, cs.ID)
		n++
		if p.e.accept {
			accepted++
		}
		if n%200000 == 1 {
			c.sample(map[string]interface{}{"family": p.e.fam, "tokens": strings.Join(p.e.toks, " "), "accept": p.e.accept, "first_offending_token": p.e.errTok})
		}
		c.judgeParse(p.e, r, p.lines, p.nlines)
	})
	if err != nil {
		c.infra("%v", err)
	}
	return n, accepted
}

func checkC08(c *Ctx) {
	cfg := "FamPrefix_quick.cfg"
	if c.Tier == "thorough" {
		cfg = "FamPrefix_thorough.cfg"
	}
	out := filepath.Join(c.Work, "prefix.ndjson")
	res := c.runTLC(TLCJob{Module: "FamPrefix", Cfg: cfg, OutFile: out, Timeout: 60 * time.Minute})
	if res.Err == "" {
		n, acc := c.replayPrefixFile(out)
		c.addInt("traces_validated_against_impl", n)
		c.addInt("evaluations", n)
		c.addInt("distinct_nontrivial", n)
		c.cov("accepted_programs", acc)
	}
	tcfg := "FamText_quick.cfg"
	if c.Tier == "thorough" {
		tcfg = "FamText_thorough.cfg"
	}
	tout := filepath.Join(c.Work, "text.ndjson")
	if res := c.runTLC(TLCJob{Module: "FamText", Cfg: tcfg, OutFile: tout, Timeout: 60 * time.Minute}); res.Err == "" {
		n, rej := c.replayTextFile(tout)
		c.addInt("traces_validated_against_impl", n)
		c.addInt("evaluations", n)
		c.addInt("distinct_nontrivial", rej)
	}
	ns := c.replaySchemata()
	c.addInt("traces_validated_against_impl", ns)
	c.addInt("evaluations", ns)
	c.cov("exhaustive", true)
	c.cov("rule", "(character level) every text of <= MaxFrag fragments of FamText judged by BornoLex then BornoGrammar, a sample of the rejected ones also through the executable behind a printing statement (nothing may run, exit 65); (schemata) nesting depth 1..10000 of brackets, blocks, unary / call / index / property / else-if / assignment chains, 254..300 parameters, every reserved name as variable, function, parameter, property and assignment target, assignable and non-assignable left sides; (token level) every viable prefix of <= MaxLen tokens over the 38-token alphabet of FamPrefix (one TLC state per prefix), each replayed as it stands (accepted with its tree, or rejected at end of input) and extended by every one of the 38 tokens that does not keep it viable (rejected at that token); one token per line, `var` declarations on one line, sequences containing `, }` skipped (outside the domain)")
	c.Ev.Assumptions = []string{"the predictive recogniser BornoGrammar is the published grammar with the four readings of C08", "diagnostics are observed through the verif hook in utils.report"}
}

func init() {
	checks["C08"] = checkC08
}

var _ = sort.Ints

type TreeRec struct {
	ID       int                    `json:"id"`
	Min      []string               `json:"min"`
	Full     []string               `json:"full"`
	MinTree  map[string]interface{} `json:"mintree"`
	FullTree map[string]interface{} `json:"fulltree"`
	IsExpr   bool                   `json:"isexpr"`
}

// replayTreeFile: every tree, written out minimally and fully parenthesised, must come back from the real parser as
// exactly that tree; and the two writings of an expression must evaluate alike.
func (c *Ctx) replayTreeFile(path string) int64 {
	cases := make(chan *Case, 512)
	type pend struct {
		rec  *TreeRec
		kind string
	}
	pending := map[int]*pend{}
	outs := map[int]map[string]*Result{}
	prelude, _ := Render([]string{"K:var", "I:a", "=", "N:6e0", ",", "I:b", "=", "N:3e0", ",", "I:c", "=", "N:2e0", ",", "I:d", "=", "N:1e0", ";"}, nil)
	go func() {
		id := 0
		forEachLine(path, func(line []byte) error {
			var rec TreeRec
			if err := json.Unmarshal(line, &rec); err != nil {
				c.infra("bad tree record: %v", err)
				return nil
			}
			for _, k := range []string{"min", "full"} {
				toks := rec.Min
				if k == "full" {
					toks = rec.Full
				}
				src, _ := Render(toks, nil)
				id++
				c.Pool.mu.Lock()
				pending[id] = &pend{&rec, k}
				c.Pool.mu.Unlock()
				cases <- &Case{ID: id, Mode: "parse", Src: src, WantA: true}
				if rec.IsExpr {
					id++
					c.Pool.mu.Lock()
					pending[id] = &pend{&rec, "run-" + k}
					c.Pool.mu.Unlock()
					cases <- &Case{ID: id, Mode: "run", Src: prelude + src, Repl: true, Fuel: 5000}
				}
			}
			return nil
		})
		close(cases)
	}()
	var n int64
	err := c.Pool.Run(cases, func(cs *Case, r *Result) {
		p := pending[cs.ID]
		delete(pending, cs.ID)
		n++
		key := fmt.Sprintf("tree#%d %s", p.rec.ID, strings.Join(p.rec.Min, " "))
		rep := func(what, detail string) {
			c.violation(c.Prop+"|tree|"+p.kind+"|"+what, key, map[string]interface{}{"mode": "parse", "src": cs.Src, "record": p.rec, "detail": detail,
				"observed": map[string]interface{}{"events": r.Events, "panic": r.Panic, "crash": r.Crash, "out": r.Out}})
		}
		if n%1500 == 1 {
			c.sample(map[string]interface{}{"family": "tree", "minimal": strings.Join(p.rec.Min, " "), "full": strings.Join(p.rec.Full, " ")})
		}
		if r.Crash != "" || r.Panic != "" {
			rep("abnormal-termination", clip(r.Crash+r.Panic, 300))
			return
		}
		if strings.HasPrefix(p.kind, "run-") {
			m := outs[p.rec.ID]
			if m == nil {
				m = map[string]*Result{}
				outs[p.rec.ID] = m
			}
			m[p.kind] = r
			if a, b := m["run-min"], m["run-full"]; a != nil && b != nil {
				da, db := runtimeDiags(a), runtimeDiags(b)
				if a.Out != b.Out || len(da) != len(db) || (len(da) > 0 && classifyDiag(da[0].Msg) != classifyDiag(db[0].Msg)) {
					rep("parentheses-change-meaning", fmt.Sprintf("minimal writing gives %q / %d diagnostics, fully parenthesised writing gives %q / %d", a.Out, len(da), b.Out, len(db)))
				}
				delete(outs, p.rec.ID)
			}
			return
		}
		if r.HadErr || r.Ast == nil {
			rep("rejected-valid", fmt.Sprintf("diagnostics at lines %v", staticDiagLines(r)))
			return
		}
		want := p.rec.MinTree
		if p.kind == "full" {
			want = p.rec.FullTree
		}
		if d := treeDiff(want, toMap(r.Ast), ""); d != "" {
			rep("tree", d)
		}
	})
	if err != nil {
		c.infra("%v", err)
	}
	return n
}

func checkC01(c *Ctx) {
	tcfg, pcfg := "FamTrees_quick.cfg", "FamPrefix_quick.cfg"
	if c.Tier == "thorough" {
		tcfg, pcfg = "FamTrees_thorough.cfg", "FamPrefix_thorough.cfg"
	}
	out := filepath.Join(c.Work, "trees.ndjson")
	if res := c.runTLC(TLCJob{Module: "FamTrees", Cfg: tcfg, OutFile: out, Timeout: 60 * time.Minute}); res.Err == "" {
		n := c.replayTreeFile(out)
		c.addInt("traces_validated_against_impl", n)
		c.addInt("evaluations", n)
		c.addInt("distinct_nontrivial", n/2)
	}
	pout := filepath.Join(c.Work, "prefix.ndjson")
	if res := c.runTLC(TLCJob{Module: "FamPrefix", Cfg: pcfg, OutFile: pout, Timeout: 60 * time.Minute}); res.Err == "" {
		n, acc := c.replayPrefixFile(pout)
		c.addInt("traces_validated_against_impl", n)
		c.addInt("evaluations", n)
		c.addInt("distinct_nontrivial", acc)
		c.cov("accepted_token_sequences_with_tree", acc)
	}
	// the two writings of one tree over VALUES of every kind: the operator matrix and the chains of FamOps, each program
	// written with the parentheses the grammar needs and with all it allows; the two must behave alike
	oout := filepath.Join(c.Work, "ops.ndjson")
	if res := c.runTLC(TLCJob{Module: "FamOps", Cfg: "FamOps_quick.cfg", OutFile: oout, Timeout: 40 * time.Minute}); res.Err == "" {
		n := c.parenPairs(oout, 2)
		c.addInt("traces_validated_against_impl", n)
		c.addInt("evaluations", n)
	}
	c.cov("exhaustive", true)
	c.cov("rule", "FamOps (operators x values of every kind, chains): minimal against full parenthesisation of the same tree, run and compared with each other; FamTrees: every depth-2 tree over all 21 binary-like operators (both nestings), all prefix and postfix combinations, chains, (thorough: every depth-3 tree over one representative per ladder level, 5 shapes), every nesting of if / if-else / while / for / block to depth 2 (3) and declaration lists; each written minimally and fully parenthesised, parsed by the real parser and compared node by node (Grouping included), and both writings of each expression evaluated (echo) and compared; FamPrefix: every accepted token sequence of <= MaxLen tokens with the tree the recogniser builds (checked against Canon and Yield inside TLC)")
	c.Ev.Assumptions = []string{"BornoSyntax (ladder relation Canon, Yield, MinParen, FullParen) and BornoGrammar (predictive recogniser) are two independent formulations that TLC checks against each other"}
}

func init() {
	checks["C01"] = checkC01
}

type TextRec struct {
	Text []int `json:"text"`
	V    struct {
		Accept bool `json:"accept"`
		LexErr bool `json:"lexerr"`
		Line   int  `json:"line"`
		AtEq   bool `json:"ateq"`
	} `json:"v"`
}

var reTrailingComma = regexp.MustCompile(`,\s*\}`)

// replayTextFile: character-level accept / reject classification and the line of the first diagnostic.
func (c *Ctx) replayTextFile(path string) (int64, int64) {
	cases := make(chan *Case, 1024)
	recs := map[int]*TextRec{}
	varKw := keywordSpelling["var"]
	var cliRejected []string
	go func() {
		id := 0
		forEachLine(path, func(line []byte) error {
			var rec TextRec
			if err := json.Unmarshal(line, &rec); err != nil {
				c.infra("bad text record: %v", err)
				return nil
			}
			src := intsToString(rec.Text)
			if (strings.Contains(src, varKw) && strings.Contains(src, "\n")) || reTrailingComma.MatchString(src) {
				return nil // outside the domain of the accept/reject clause
			}
			id++
			c.Pool.mu.Lock()
			recs[id] = &rec
			if !rec.V.Accept && (id+c.Seed)%97 == 0 && len(cliRejected) < 400 {
				cliRejected = append(cliRejected, src)
			}
			c.Pool.mu.Unlock()
			cases <- &Case{ID: id, Mode: "parse", Src: src}
			return nil
		})
		close(cases)
	}()
	var n, rejected int64
	err := c.Pool.Run(cases, func(cs *Case, r *Result) {
		rec := recs[cs.ID]
		delete(recs, cs.ID)
		n++
		nl := strings.Count(cs.Src, "\n") + 1
		cls := "accept"
		if rec.V.LexErr {
			cls = "lexical-error"
		} else if !rec.V.Accept {
			cls = "syntax-error"
		}
		rep := func(what, detail string) {
			c.violation(c.Prop+"|text|"+cls+"|"+what, strconv.Quote(cs.Src), map[string]interface{}{"mode": "parse", "src": cs.Src, "expected": rec.V, "detail": detail,
				"observed": map[string]interface{}{"events": r.Events, "panic": r.Panic, "crash": r.Crash}})
		}
		if n%20000 == 1 {
			c.sample(map[string]interface{}{"family": "text", "text": cs.Src, "expected": rec.V})
		}
		if r.Crash != "" || r.Panic != "" {
			rep("abnormal-termination", clip(r.Crash+r.Panic, 300))
			return
		}
		dl := staticDiagLines(r)
		if rec.V.Accept {
			if len(dl) > 0 || r.HadErr {
				rep("rejected-valid", fmt.Sprintf("diagnostics at lines %v", dl))
			}
			return
		}
		rejected++
		if len(dl) == 0 || !r.HadErr {
			rep("accepted-invalid", "no diagnostic")
			return
		}
		if dl[0] < 1 || dl[0] > nl {
			rep("diag-line-outside-text", fmt.Sprintf("line %d of %d", dl[0], nl))
			return
		}
		if dl[0] != rec.V.Line && !(rec.V.AtEq && dl[0] >= rec.V.Line) {
			rep("diag-line", fmt.Sprintf("first diagnostic at line %d, expected %d", dl[0], rec.V.Line))
		}
	})
	if err != nil {
		c.infra("%v", err)
	}
	// "no part of a rejected text is executed - not even statements that precede the error": through the executable
	pre, _ := Render([]string{"K:print", "S:ran", ";"}, nil)
	var wg sync.WaitGroup
	var mu sync.Mutex
	sem := make(chan struct{}, runtime.NumCPU())
	for i, src := range cliRejected {
		wg.Add(1)
		sem <- struct{}{}
		go func(i int, src string) {
			defer wg.Done()
			defer func() { <-sem }()
			f := filepath.Join(c.Work, fmt.Sprintf("rej_%d.bn", i))
			os.WriteFile(f, []byte(pre+src), 0644)
			r := c.runCLI([]string{f}, "", 10*time.Second)
			os.Remove(f)
			what := ""
			switch {
			case r.Killed:
				what = "cli:no-termination"
			case r.Out != "":
				what = "cli:rejected-text-executed"
			case r.Exit != 65:
				what = fmt.Sprintf("cli:exit:65->%d", r.Exit)
			case !strings.Contains(r.Err, "[line "):
				what = "cli:no-diagnostic-on-stderr"
			}
			if what != "" {
				mu.Lock()
				c.violation(c.Prop+"|text|rejected|"+what, strconv.Quote(src), map[string]interface{}{"mode": "cli", "src": pre + src, "detail": what,
					"observed": map[string]interface{}{"out": r.Out, "err": clip(r.Err, 300), "exit": r.Exit}})
				mu.Unlock()
			}
		}(i, src)
	}
	wg.Wait()
	c.addInt("cli_runs", int64(len(cliRejected)))
	return n, rejected
}

// schemata: nesting depth up to 10 000, parameter limits, reserved names, non-assignable left sides
func (c *Ctx) replaySchemata() int64 {
	type sc struct {
		name, src string
		accept    bool
		line      int // > 0: the line the first diagnostic must name (the first token at which the text stops being a viable prefix)
	}
	var list []sc
	rep := strings.Repeat
	kw := func(k string) string { return keywordSpelling[k] }
	for _, n := range []int{1, 10, 100, 1000, 10000} {
		list = append(list,
			sc{fmt.Sprintf("parens-%d", n), rep("(", n) + "1" + rep(")", n) + ";", true, 0},
			sc{fmt.Sprintf("brackets-%d", n), rep("[", n) + rep("]", n) + ";", true, 0},
			sc{fmt.Sprintf("blocks-%d", n), rep("{ ", n) + rep("} ", n), true, 0},
			sc{fmt.Sprintf("unary-%d", n), rep("- ", n) + "1;", true, 0},
			sc{fmt.Sprintf("calls-%d", n), "a" + rep("()", n) + ";", true, 0},
			sc{fmt.Sprintf("index-%d", n), "a" + rep("[0]", n) + ";", true, 0},
			sc{fmt.Sprintf("props-%d", n), "a" + rep(".k", n) + ";", true, 0},
			sc{fmt.Sprintf("ifs-%d", n), rep(kw("if")+" (a) ", n) + ";", false, 0},
			sc{fmt.Sprintf("if-else-chain-%d", n), rep(kw("if")+" (a) b; "+kw("else")+" ", n) + "c;", true, 0},
			sc{fmt.Sprintf("unclosed-parens-%d", n), rep("(", n) + "1;", false, 0},
			sc{fmt.Sprintf("binary-chain-%d", n), "1" + rep(" + 1", n) + ";", true, 0},
			sc{fmt.Sprintf("assign-chain-%d", n), rep("a = ", n) + "1;", true, 0},
		)
	}
	params := func(n int) string {
		ps := make([]string, n)
		for i := range ps {
			ps[i] = fmt.Sprintf("p%d", i)
		}
		return kw("fun") + " f(" + strings.Join(ps, ", ") + ") { }"
	}
	list = append(list, sc{"params-254", params(254), true, 0}, sc{"params-255", params(255), true, 0}, sc{"params-256", params(256), false, 1}, sc{"params-300", params(300), false, 1})
	// the same lists broken over lines, per parameters a line: the 256th parameter is the offending token
	paramsLines := func(n, per int) string {
		var b strings.Builder
		b.WriteString(kw("fun") + " f(\n")
		for i := 0; i < n; i++ {
			fmt.Fprintf(&b, "p%d", i)
			if i+1 < n {
				b.WriteString(",")
			}
			if (i+1)%per == 0 || i+1 == n {
				b.WriteString("\n")
			} else {
				b.WriteString(" ")
			}
		}
		b.WriteString(") {\n}\n")
		return b.String()
	}
	for _, per := range []int{1, 8, 255} {
		list = append(list, sc{fmt.Sprintf("params-255-lines%d", per), paramsLines(255, per), true, 0},
			sc{fmt.Sprintf("params-256-lines%d", per), paramsLines(256, per), false, 2 + 255/per},
			sc{fmt.Sprintf("params-300-lines%d", per), paramsLines(300, per), false, 2 + 255/per})
	}
	names := make([]string, 0, len(builtinSpelling))
	for k := range builtinSpelling {
		names = append(names, k)
	}
	sort.Strings(names)
	for _, k := range names {
		s := builtinSpelling[k]
		list = append(list, sc{"reserved-var-" + k, kw("var") + " " + s + " = 1;", false, 0}, sc{"reserved-fun-" + k, kw("fun") + " " + s + "() { }", false, 0},
			sc{"reserved-second-var-" + k, kw("var") + " a = 1, " + s + ";", false, 0},
			sc{"reserved-param-" + k, kw("fun") + " f(" + s + ") { }", true, 0}, sc{"reserved-assign-" + k, s + " = 1;", true, 0}, sc{"reserved-property-" + k, "a." + s + ";", true, 0})
	}
	for _, lhs := range []string{"1", "\"s\"", "(a)", "a + b", "f()", "-a", "[1]", "!a", "a == b", kw("true"), kw("nil"), "a.b()", "(a.b)", "{}"} {
		list = append(list, sc{"assign-to:" + lhs, kw("print") + " " + lhs + " = 1;", false, 0})
	}
	for _, lhs := range []string{"a", "a[0]", "a.b", "a[0].b", "a.b[0]", "f().k", "f()[0]", "a[b = 1]"} {
		list = append(list, sc{"assign-to:" + lhs, lhs + " = 1;", true, 0})
	}
	cases := make(chan *Case, 64)
	go func() {
		for i, s := range list {
			cases <- &Case{ID: i, Mode: "parse", Src: s.src}
		}
		close(cases)
	}()
	var n int64
	c.Pool.Run(cases, func(cs *Case, r *Result) {
		s := list[cs.ID]
		n++
		what := ""
		switch {
		case r.Crash != "" || r.Panic != "":
			what = "abnormal-termination"
		case s.accept && (r.HadErr || len(staticDiagLines(r)) > 0):
			what = "rejected-valid"
		case !s.accept && !r.HadErr:
			what = "accepted-invalid"
		case s.line > 0 && (len(staticDiagLines(r)) == 0 || staticDiagLines(r)[0] != s.line):
			what = fmt.Sprintf("first-diagnostic-line:%v-expected:%d", staticDiagLines(r), s.line)
		}
		if what != "" {
			c.violation(c.Prop+"|schema|"+strings.SplitN(s.name, "-", 2)[0]+"|"+what, s.name, map[string]interface{}{"mode": "parse", "src": clip(s.src, 400), "detail": what,
				"observed": map[string]interface{}{"events": r.Events, "panic": clip(r.Panic, 300), "crash": clip(r.Crash, 300)}})
		}
	})
	return n
}

// parenPairs: every every-th record of a family that carries both parenthesisations is run in both writings; stdout, the
// kind and line of the first diagnostic and the outcome must be the same (no reference to the specification's values:
// this is the metamorphic half of C01).
func (c *Ctx) parenPairs(path string, every int) int64 {
	type pair struct {
		rec  *SemRec
		a, b *Result
	}
	pairs := map[int]*pair{}
	cases := make(chan *Case, 256)
	go func() {
		k := 0
		forEachLine(path, func(line []byte) error {
			var rec SemRec
			if json.Unmarshal(line, &rec) != nil || len(rec.Full) == 0 || rec.Status == "fuel" {
				return nil
			}
			k++
			if (k+c.Seed)%every != 0 {
				return nil
			}
			s1, e1 := Render(rec.Toks, nil)
			s2, e2 := Render(rec.Full, nil)
			if e1 != nil || e2 != nil {
				return nil
			}
			c.Pool.mu.Lock()
			pairs[k] = &pair{rec: &rec}
			c.Pool.mu.Unlock()
			cases <- &Case{ID: 2 * k, Mode: "run", Src: s1, Fuel: 200000}
			cases <- &Case{ID: 2*k + 1, Mode: "run", Src: s2, Fuel: 200000}
			return nil
		})
		close(cases)
	}()
	var n int64
	c.Pool.Run(cases, func(cs *Case, r *Result) {
		n++
		p := pairs[cs.ID/2]
		if cs.ID%2 == 0 {
			p.a = r
		} else {
			p.b = r
		}
		if p.a == nil || p.b == nil {
			return
		}
		delete(pairs, cs.ID/2)
		sum := func(r *Result) string {
			d := ""
			for _, e := range r.Events {
				if e.E == "diag" {
					d = fmt.Sprintf("%s@%d:%s", e.Kind, e.Line, kindClass(classifyDiag(e.Msg)))
					break
				}
			}
			return fmt.Sprintf("out=%q diag=%s panic=%v crash=%v", r.Out, d, r.Panic != "", r.Crash != "")
		}
		if sa, sb := sum(p.a), sum(p.b); sa != sb {
			c.violation(c.Prop+"|paren-pair|"+p.rec.Cls+"|differs", p.rec.Key, map[string]interface{}{"mode": "run", "src": cs.Src,
				"detail": fmt.Sprintf("minimal parentheses: %s ; full parentheses: %s", clip(sa, 200), clip(sb, 200))})
		}
	})
	return n
}
