package main

// In-process executor.  A worker sub-process links the Borno packages rebuilt from /repo (tag verif),
// receives cases as JSON lines on fd 3 and answers on fd 4.  os.Stdout/os.Stderr/os.Stdin of the worker are
// replaced by scratch files so that what the interpreter prints can be observed per case.  An unrecoverable
// fatal error (stack overflow) kills the worker; the pool then attributes it to the case in flight.

import (
	"bufio"
	"encoding/json"
	"fmt"
	"io"
	"os"
	"runtime/debug"
	"strings"

	"github.com/ah-naf/borno/ast"
	"github.com/ah-naf/borno/interpreter"
	"github.com/ah-naf/borno/lexer"
	"github.com/ah-naf/borno/parser"
	"github.com/ah-naf/borno/token"
	"github.com/ah-naf/borno/utils"
)

type Case struct {
	ID    int    `json:"id"`
	Mode  string `json:"mode"` // lex | parse | run
	Src   string `json:"src"`
	Stdin string `json:"stdin,omitempty"`
	Repl  bool   `json:"repl,omitempty"`
	Fuel  int    `json:"fuel,omitempty"`
	WantT bool   `json:"wantToks,omitempty"`
	WantA bool   `json:"wantAst,omitempty"`
	Trace bool   `json:"trace,omitempty"`  // record the ordered event trace of the run (direction 2)
	Repeat int   `json:"repeat,omitempty"` // run the case this many times in this one process; report distinct observations
}

type Event struct {
	E    string `json:"e"` // diag | call
	Kind string `json:"kind,omitempty"`
	Line int    `json:"ln,omitempty"`
	Msg  string `json:"msg,omitempty"`
	Name string `json:"name,omitempty"`
	Off  int64  `json:"off"`           // bytes of stdout written before the event
	In   int64  `json:"in"`            // bytes of stdin consumed before the event
	NArg int    `json:"nargs,omitempty"`
}

type TokObs struct {
	Ty   string      `json:"ty"`
	Lex  []int       `json:"lex"`
	Ln   int         `json:"ln"`
	LitK string      `json:"litk"` // none | num | str | other
	Bits string      `json:"bits,omitempty"`
	Str  []int       `json:"str,omitempty"`
	Oth  string      `json:"oth,omitempty"`
}

type Result struct {
	ID       int         `json:"id"`
	Toks     []TokObs    `json:"toks,omitempty"`
	Ast      interface{} `json:"ast,omitempty"`
	Out      string      `json:"out"`
	Err      string      `json:"err"`
	Events   []Event     `json:"events,omitempty"`
	HadErr   bool        `json:"hadError"`
	HadRT    bool        `json:"hadRuntimeError"`
	Panic    string      `json:"panic,omitempty"`
	Fuel     bool        `json:"fuel,omitempty"`
	Steps    int         `json:"steps"`
	StdinPos int64       `json:"stdinPos"`
	Out2     string      `json:"out2,omitempty"`  // result of a pure helper (mode translit)
	Trace    []TraceEv   `json:"trace,omitempty"`
	Variants []string    `json:"variants,omitempty"` // mode run with Repeat: observations that differ from the first run
	Crash    string      `json:"crash,omitempty"` // set by the pool, never by the worker
}

// TraceEv is one observed event of a run, at the granularity of the specification's emitting actions.
type TraceEv struct {
	Ev     string      `json:"ev"` // print | echo | native | diag | end
	V      interface{} `json:"v,omitempty"`
	Name   string      `json:"name"`
	NArgs  int         `json:"nargs"`
	Prompt []int       `json:"prompt"`
	HasP   bool        `json:"hasprompt"`
	Kind   string      `json:"kind"`
	Ln     int         `json:"ln"`
	Status string      `json:"status"`
}

type fuelExhausted struct{}

var tokNames = map[token.TokenType]string{
	token.LEFT_PAREN: "LEFT_PAREN", token.RIGHT_PAREN: "RIGHT_PAREN", token.LEFT_BRACE: "LEFT_BRACE", token.RIGHT_BRACE: "RIGHT_BRACE",
	token.LEFT_BRACKET: "LEFT_BRACKET", token.RIGHT_BRACKET: "RIGHT_BRACKET", token.COMMA: "COMMA", token.DOT: "DOT",
	token.MINUS: "MINUS", token.PLUS: "PLUS", token.SEMICOLON: "SEMICOLON", token.COLON: "COLON", token.SLASH: "SLASH",
	token.STAR: "STAR", token.AND: "AND", token.OR: "OR", token.XOR: "XOR", token.POWER: "POWER", token.NOT: "NOT",
	token.MODULO: "MODULO", token.BANG: "BANG", token.BANG_EQUAL: "BANG_EQUAL", token.EQUAL: "EQUAL",
	token.EQUAL_EQUAL: "EQUAL_EQUAL", token.GREATER: "GREATER", token.GREATER_EQUAL: "GREATER_EQUAL",
	token.LEFT_SHIFT: "LEFT_SHIFT", token.LESS: "LESS", token.LESS_EQUAL: "LESS_EQUAL", token.RIGHT_SHIFT: "RIGHT_SHIFT",
	token.IDENTIFIER: "IDENTIFIER", token.STRING: "STRING", token.NUMBER: "NUMBER", token.BREAK: "BREAK",
	token.CONTINUE: "CONTINUE", token.LOGICAL_AND: "LOGICAL_AND", token.CLASS: "CLASS", token.ELSE: "ELSE",
	token.FALSE: "FALSE", token.FUN: "FUN", token.FOR: "FOR", token.IF: "IF", token.NIL: "NIL",
	token.LOGICAL_OR: "LOGICAL_OR", token.PRINT: "PRINT", token.RETURN: "RETURN", token.TRUE: "TRUE", token.VAR: "VAR",
	token.WHILE: "WHILE", token.EOF: "EOF",
}

func tokName(t token.TokenType) string {
	if n, ok := tokNames[t]; ok {
		return n
	}
	return fmt.Sprintf("T%d", int(t))
}

func cpsOf(s string) []int {
	r := []rune(s)
	o := make([]int, len(r))
	for i, c := range r {
		o[i] = int(c)
	}
	return o
}

func runesToInts(r []rune) []int {
	o := make([]int, len(r))
	for i, c := range r {
		o[i] = int(c)
	}
	return o
}

func absTokens(ts []token.Token) []TokObs {
	out := make([]TokObs, 0, len(ts))
	for _, t := range ts {
		o := TokObs{Ty: tokName(t.Type), Lex: cpsOf(t.Lexeme), Ln: t.Line, LitK: "none"}
		switch v := t.Literal.(type) {
		case nil:
		case float64:
			o.LitK = "num"
			o.Bits = bitsOf(v)
		case []rune:
			o.LitK = "str"
			o.Str = runesToInts(v)
			if o.Str == nil {
				o.Str = []int{}
			}
		case string:
			o.LitK = "str"
			o.Str = cpsOf(v)
		default:
			o.LitK = "other"
			o.Oth = fmt.Sprintf("%T:%v", v, v)
		}
		out = append(out, o)
	}
	return out
}

type workerState struct {
	outF, errF, inF *os.File
	events          []Event
	steps, fuel     int
	tracing         bool
	trace           []TraceEv
}

func (w *workerState) outOff() int64 {
	off, _ := w.outF.Seek(0, io.SeekCurrent)
	return off
}
func (w *workerState) inOff() int64 {
	off, _ := w.inF.Seek(0, io.SeekCurrent)
	return off
}

func workerMain() {
	debug.SetMaxStack(192 << 20)
	debug.SetGCPercent(400)
	in := os.NewFile(3, "cases")
	out := os.NewFile(4, "results")
	dir := os.Getenv("VERIF_WORKDIR")
	if dir == "" {
		dir = os.TempDir()
	}
	tag := fmt.Sprintf("%d", os.Getpid())
	w := &workerState{}
	var err error
	if w.outF, err = os.OpenFile(dir+"/w"+tag+".out", os.O_RDWR|os.O_CREATE|os.O_TRUNC, 0600); err != nil {
		panic(err)
	}
	// stderr of the interpreter goes to a scratch file as well, but a fatal runtime banner must reach the
	// pool: the real fd 2 is left alone (Go's runtime writes there), only os.Stderr is redirected.
	if w.errF, err = os.OpenFile(dir+"/w"+tag+".err", os.O_RDWR|os.O_CREATE|os.O_TRUNC, 0600); err != nil {
		panic(err)
	}
	if w.inF, err = os.OpenFile(dir+"/w"+tag+".in", os.O_RDWR|os.O_CREATE|os.O_TRUNC, 0600); err != nil {
		panic(err)
	}
	defer os.Remove(w.outF.Name())
	defer os.Remove(w.errF.Name())
	defer os.Remove(w.inF.Name())
	os.Stdout, os.Stderr, os.Stdin = w.outF, w.errF, w.inF
	installSink(w)

	rd := bufio.NewReaderSize(in, 1<<20)
	wr := bufio.NewWriterSize(out, 1<<20)
	enc := json.NewEncoder(wr)
	for {
		line, err := rd.ReadBytes('\n')
		if len(line) > 0 {
			var c Case
			if e := json.Unmarshal(line, &c); e != nil {
				fmt.Fprintf(os.NewFile(2, "fd2"), "worker: bad case: %v\n", e)
				os.Exit(3)
			}
			r := w.runCase(&c)
			for k := 1; k < c.Repeat; k++ {
				r2 := w.runCase(&c)
				if r2.Out != r.Out || r2.Err != r.Err || r2.Panic != r.Panic || r2.HadRT != r.HadRT || r2.HadErr != r.HadErr {
					if len(r.Variants) < 4 {
						r.Variants = append(r.Variants, fmt.Sprintf("run %d: out=%q err=%q panic=%q", k+1, r2.Out, r2.Err, firstLineOf(r2.Panic)))
					}
				}
			}
			enc.Encode(r)
			wr.Flush() // every answer is flushed at once: a later fatal error must be attributed to the right case
		}
		if err != nil {
			break
		}
	}
	wr.Flush()
}

func (w *workerState) reset(stdin string) {
	w.outF.Truncate(0)
	w.outF.Seek(0, io.SeekStart)
	w.errF.Truncate(0)
	w.errF.Seek(0, io.SeekStart)
	w.inF.Truncate(0)
	w.inF.Seek(0, io.SeekStart)
	if stdin != "" {
		w.inF.WriteString(stdin)
		w.inF.Seek(0, io.SeekStart)
	}
	w.events = w.events[:0]
	w.trace = nil
	w.steps = 0
	utils.HadError = false
	utils.HadRuntimeError = false
}

func readAll(f *os.File) string {
	n, _ := f.Seek(0, io.SeekCurrent)
	if n == 0 {
		return ""
	}
	b := make([]byte, n)
	f.ReadAt(b, 0)
	return string(b)
}

func (w *workerState) runCase(c *Case) (res *Result) {
	w.reset(c.Stdin)
	w.tracing = c.Trace
	w.fuel = c.Fuel
	if w.fuel == 0 {
		w.fuel = 300000
	}
	res = &Result{ID: c.ID}
	defer func() {
		if p := recover(); p != nil {
			if _, ok := p.(fuelExhausted); ok {
				res.Fuel = true
			} else {
				msg := fmt.Sprint(p)
				st := string(debug.Stack())
				if i := strings.Index(st, "panic("); i >= 0 {
					st = st[i:]
				}
				if len(st) > 1500 {
					st = st[:1500]
				}
				res.Panic = msg + "\n" + st
			}
		}
		res.Out = readAll(w.outF)
		res.Err = readAll(w.errF)
		res.Events = append([]Event(nil), w.events...)
		if w.tracing {
			st := "done"
			if utils.HadRuntimeError {
				st = "error"
			}
			if res.Fuel || res.Panic != "" || utils.HadError {
				st = "abnormal"
			}
			res.Trace = append(w.trace, TraceEv{Ev: "end", Status: st, Prompt: []int{}})
		}
		res.HadErr = utils.HadError
		res.HadRT = utils.HadRuntimeError
		res.Steps = w.steps
		res.StdinPos = w.inOff()
	}()
	if c.Mode == "translit" {
		res.Out2 = utils.ConvertBanglaDigitsToASCII(c.Src)
		return
	}
	sc := lexer.NewScanner([]rune(c.Src))
	toks := sc.ScanTokens()
	if c.Mode == "lex" || c.WantT {
		res.Toks = absTokens(toks)
	}
	if c.Mode == "lex" {
		return
	}
	p := parser.NewParser(toks)
	stmts, _ := p.Parse()
	if c.Mode == "parse" || c.WantA {
		if !utils.HadError && stmts != nil {
			res.Ast = absProgram(stmts)
			if c.Trace {
				res.Ast = specTree(absProgram(stmts)) // the shape TraceSem executes
			}
		}
	}
	if c.Mode == "parse" {
		return
	}
	// exactly what main.run does
	if utils.HadError {
		return
	}
	it := interpreter.NewInterpreter()
	it.Interpret(stmts, c.Repl)
	return
}

func calleeName(f interface{}) string {
	switch v := f.(type) {
	case *interpreter.Function:
		if v != nil && v.Declaration != nil {
			return "user:" + v.Declaration.Name.Lexeme
		}
		return "user:?"
	default:
		return fmt.Sprintf("%T", f)
	}
}

func installSink(w *workerState) {
	utils.VerifSink = func(ev string, a ...interface{}) {
		switch ev {
		case "eval":
			w.steps++
			if w.steps > w.fuel {
				panic(fuelExhausted{})
			}
		case "print", "echo":
			if w.tracing && len(a) >= 1 && len(w.trace) < 5000 {
				w.trace = append(w.trace, TraceEv{Ev: ev, V: absValue(a[0], 6, map[uintptr]bool{}), Prompt: []int{}})
			}
		case "diag":
			e := Event{E: "diag", Off: w.outOff(), In: w.inOff()}
			if len(a) >= 3 {
				e.Kind, _ = a[0].(string)
				e.Line, _ = a[1].(int)
				e.Msg, _ = a[2].(string)
			}
			if w.tracing && e.Kind == "runtime" && len(w.trace) < 5000 {
				w.trace = append(w.trace, TraceEv{Ev: "diag", Kind: kindClass(classifyDiag(e.Msg)), Ln: e.Line, Prompt: []int{}})
			}
			nd := 0
			for k := range w.events {
				if w.events[k].E == "diag" {
					nd++
				}
			}
			if nd < 64 { // a cap on DIAGNOSTICS (floods of static errors), not on what was recorded before them
				w.events = append(w.events, e)
			}
		case "call":
			e := Event{E: "call", Off: w.outOff(), In: w.inOff()}
			if len(a) >= 1 {
				e.Name = calleeName(a[0])
			}
			if len(a) >= 2 {
				if args, ok := a[1].([]interface{}); ok {
					e.NArg = len(args)
				}
			}
			if len(w.events) < 4096 {
				w.events = append(w.events, e)
			}
			if n, ok := nativeGoName[e.Name]; ok && w.tracing && len(w.trace) < 5000 {
				te := TraceEv{Ev: "native", Name: n, NArgs: e.NArg}
				if n == "input" && e.NArg == 1 {
					if args, ok := a[1].([]interface{}); ok {
						switch p := args[0].(type) {
						case string:
							te.Prompt, te.HasP = cpsOf(p), true
						case []rune:
							te.Prompt, te.HasP = runesToInts(p), true
						}
					}
				}
				if te.Prompt == nil {
					te.Prompt = []int{}
				}
				w.trace = append(w.trace, te)
			}
		}
	}
}

var _ = ast.Literal{}

func firstLineOf(s string) string {
	if i := strings.IndexByte(s, '\n'); i >= 0 {
		return s[:i]
	}
	return s
}
