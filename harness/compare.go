package main

// Tolerant comparators: they check what the properties state and nothing more (DESIGN.md 5).

import (
	"fmt"
	"math"
	"math/big"
	"regexp"
	"strconv"
	"strings"
)

// XVal is a value snapshot emitted by the specification (BornoSem!Snap).
type XVal struct {
	T    string   `json:"t"`
	B    bool     `json:"b"`
	N    string   `json:"n"`
	Bits string   `json:"bits"`
	S    []int    `json:"s"`
	E    []XVal   `json:"e"`
	Ks   []string `json:"ks"`
	Vs   []XVal   `json:"vs"`
	Name string   `json:"name"`
	Ulps int      `json:"ulps"`
	Lst  *struct {
		Of   int    `json:"of"`
		Ver  int    `json:"ver"`
		Kind string `json:"kind"`
	} `json:"lst"`
}

// listState remembers, per object and modification count, which listing orders are still compatible with the
// key / value listings printed so far (any order is allowed, but it must be stable and the two must agree).
type listState map[string][][]int

func perms(n int) [][]int {
	var res [][]int
	p := make([]int, n)
	for i := range p {
		p[i] = i
	}
	var rec func(k int)
	rec = func(k int) {
		if k == n {
			res = append(res, append([]int(nil), p...))
			return
		}
		for i := k; i < n; i++ {
			p[k], p[i] = p[i], p[k]
			rec(k + 1)
			p[k], p[i] = p[i], p[k]
		}
	}
	rec(0)
	return res
}

// matchListing matches a printed key/value listing against the expected elements in some order consistent with
// the earlier listings of the same unmodified object.
func matchListing(v *XVal, line string, strict bool, ls listState) string {
	n := len(v.E)
	if n > 7 {
		return ""
	}
	key := fmt.Sprintf("%d:%d", v.Lst.Of, v.Lst.Ver)
	cands, seen := ls[key]
	if !seen {
		cands = perms(n)
	}
	toks := compTokens(line)
	var keep [][]int
	anyOrder := false
	for _, p := range perms(n) {
		pv := XVal{T: "arr", E: make([]XVal, n)}
		for i, j := range p {
			pv.E[i] = v.E[j]
		}
		ok := false
		for _, e := range matchComp(&pv, toks, 0, strict) {
			if e == len(toks) {
				ok = true
			}
		}
		if ok {
			anyOrder = true
			for _, c := range cands {
				same := true
				for i := range c {
					if c[i] != p[i] {
						same = false
						break
					}
				}
				if same {
					keep = append(keep, p)
					break
				}
			}
		}
	}
	if !anyOrder {
		return "listing does not show exactly the expected elements"
	}
	if len(keep) == 0 {
		return "listing order disagrees with an earlier key/value listing of the same unmodified object"
	}
	ls[key] = keep
	return ""
}

type OutRec struct {
	T string `json:"t"` // print | echo | prompt
	V XVal   `json:"v"`
	S []int  `json:"s"`
}

type DiagRec struct {
	Kind string `json:"kind"`
	Ln   int    `json:"ln"`
}

type NatRec struct {
	Name  string `json:"name"`
	NArgs int    `json:"nargs"`
}

var reNumeral = regexp.MustCompile(`^[+-]?(\d+)(\.(\d+))?([eE]([+-]?)(\d+))?$`)

func canonBits(n string) (uint64, bool) {
	// value of a canonical (non-"i:") number string
	switch n {
	case "NaN":
		return math.Float64bits(math.NaN()), true
	case "Inf":
		return math.Float64bits(math.Inf(1)), true
	case "-Inf":
		return math.Float64bits(math.Inf(-1)), true
	case "-0":
		return math.Float64bits(math.Copysign(0, -1)), true
	}
	f, err := strconv.ParseFloat(n, 64)
	if err != nil {
		return 0, false
	}
	return math.Float64bits(f), true
}

func sigDigits(text string) int {
	m := reNumeral.FindStringSubmatch(text)
	if m == nil {
		return -1
	}
	ip, fp := m[1], m[3]
	if fp == "" && m[4] == "" {
		// plain integer: trailing zeros are place holders
		d := strings.TrimLeft(ip, "0")
		d = strings.TrimRight(d, "0")
		if d == "" {
			return 1
		}
		return len(d)
	}
	d := strings.TrimLeft(ip+fp, "0")
	if fp == "" {
		d = strings.TrimRight(d, "0")
	}
	if d == "" {
		return 1
	}
	return len(d)
}

// numText checks that `text` is an acceptable rendering of number v.  strict adds the C15 clauses
// (shortest digits; integers below one million without exponent or fraction).
func numText(text string, v *XVal, strict bool) string {
	if strings.HasPrefix(v.N, "i:") {
		want, _ := new(big.Int).SetString(v.N[2:], 10)
		if got, ok := new(big.Int).SetString(text, 10); ok {
			if got.Cmp(want) == 0 {
				return ""
			}
			return "denotes another integer"
		}
		f, err := strconv.ParseFloat(text, 64)
		wf, _ := new(big.Float).SetInt(want).Float64()
		if err == nil && f == wf {
			return ""
		}
		return "does not denote the integer " + v.N[2:]
	}
	switch v.N {
	case "NaN":
		if strings.EqualFold(text, "nan") {
			return ""
		}
		return "not NaN"
	case "Inf":
		if t := strings.ToLower(strings.TrimPrefix(text, "+")); t == "inf" || t == "infinity" {
			return ""
		}
		return "not +Inf"
	case "-Inf":
		if t := strings.ToLower(text); t == "-inf" || t == "-infinity" {
			return ""
		}
		return "not -Inf"
	}
	if !reNumeral.MatchString(text) {
		return "not a decimal numeral"
	}
	f, err := strconv.ParseFloat(text, 64)
	if err != nil {
		return "not a number"
	}
	want, err2 := strconv.ParseUint(v.Bits, 16, 64)
	if err2 != nil {
		w, ok := canonBits(v.N)
		if !ok {
			return "bad expectation"
		}
		want = w
	}
	if math.Float64bits(f) != want {
		return fmt.Sprintf("denotes %v, expected %v", f, math.Float64frombits(want))
	}
	if strict {
		wf := math.Float64frombits(want)
		if wf == math.Trunc(wf) && math.Abs(wf) < 1e6 {
			if strings.ContainsAny(text, ".eE") {
				return "integer below one million printed with fraction or exponent"
			}
		}
		mant := v.N
		if i := strings.IndexByte(mant, 'e'); i >= 0 {
			mant = mant[:i]
		}
		mant = strings.TrimPrefix(mant, "-")
		if sd := sigDigits(text); sd != len(mant) && wf != 0 {
			return fmt.Sprintf("%d significant digits, the shortest round-tripping numeral has %d", sd, len(mant))
		}
	}
	return ""
}

func ulpDist(a, b float64) float64 {
	if math.IsNaN(a) || math.IsNaN(b) {
		if math.IsNaN(a) && math.IsNaN(b) {
			return 0
		}
		return math.Inf(1)
	}
	ia, ib := int64(math.Float64bits(a)), int64(math.Float64bits(b))
	if ia < 0 {
		ia = math.MinInt64 - ia
	}
	if ib < 0 {
		ib = math.MinInt64 - ib
	}
	d := ia - ib // same sign region after the mapping above; exact in int64
	if d < 0 {
		d = -d
	}
	return float64(d)
}

// ---- composite values: delimiters are free, element order matters for arrays, not for objects

func compTokens(line string) []string {
	r := strings.NewReplacer("[", " ", "]", " ", "{", " ", "}", " ", "(", " ", ")", " ", ",", " ", ":", " ", "<", " ", ">", " ")
	fs := strings.Fields(r.Replace(line))
	out := fs[:0]
	for _, f := range fs {
		if f == "map" {
			continue
		}
		out = append(out, f)
	}
	return out
}

// matchComp returns the set of token positions at which a match of v starting at pos can end.
func matchComp(v *XVal, toks []string, pos int, strict bool) []int {
	switch v.T {
	case "arr":
		cur := []int{pos}
		for i := range v.E {
			var next []int
			seen := map[int]bool{}
			for _, p := range cur {
				for _, q := range matchComp(&v.E[i], toks, p, strict) {
					if !seen[q] {
						seen[q] = true
						next = append(next, q)
					}
				}
			}
			cur = next
			if len(cur) == 0 {
				return nil
			}
		}
		return cur
	case "obj":
		n := len(v.Ks)
		if n > 7 {
			return nil
		}
		// try every order of the properties
		var res []int
		seen := map[int]bool{}
		used := make([]bool, n)
		var rec func(p, k int)
		rec = func(p, k int) {
			if k == n {
				if !seen[p] {
					seen[p] = true
					res = append(res, p)
				}
				return
			}
			for i := 0; i < n; i++ {
				if used[i] || p >= len(toks) || toks[p] != v.Ks[i] {
					continue
				}
				used[i] = true
				for _, q := range matchComp(&v.Vs[i], toks, p+1, strict) {
					rec(q, k+1)
				}
				used[i] = false
			}
		}
		rec(pos, 0)
		return res
	case "str":
		want := strings.Fields(intsToString(v.S))
		if pos+len(want) > len(toks) {
			return nil
		}
		for i, w := range want {
			if toks[pos+i] != w {
				return nil
			}
		}
		return []int{pos + len(want)}
	case "num":
		if pos < len(toks) && numText(toks[pos], v, strict) == "" {
			return []int{pos + 1}
		}
		return nil
	case "approx":
		if pos < len(toks) && reNumeral.MatchString(toks[pos]) {
			return []int{pos + 1}
		}
		return nil
	case "nil":
		if pos < len(toks) && toks[pos] == "nil" {
			return []int{pos + 1}
		}
		return nil
	case "bool":
		if pos < len(toks) && toks[pos] == strconv.FormatBool(v.B) {
			return []int{pos + 1}
		}
		return nil
	case "anybool":
		if pos < len(toks) && (toks[pos] == "true" || toks[pos] == "false") {
			return []int{pos + 1}
		}
		return nil
	case "fn":
		// "<function name>" in any spelling: some tokens, one of which is the name
		for q := pos; q < len(toks) && q < pos+4; q++ {
			if toks[q] == v.Name {
				return []int{q + 1}
			}
		}
		return nil
	case "nat":
		var res []int
		for q := pos + 1; q <= len(toks) && q <= pos+4; q++ {
			res = append(res, q)
		}
		return res
	case "deep":
		var res []int
		for q := pos; q <= len(toks); q++ {
			res = append(res, q)
		}
		return res
	}
	return nil
}

// matchLine checks one printed line (without its newline) against the expected value.
func matchLine(v *XVal, line string, strict bool, ls listState) string {
	if v.T == "arr" && v.Lst != nil && len(v.E) >= 2 && ls != nil {
		return matchListing(v, line, strict, ls)
	}
	switch v.T {
	case "str":
		if line != intsToString(v.S) {
			return fmt.Sprintf("expected %q", intsToString(v.S))
		}
		return ""
	case "num":
		return numText(line, v, strict)
	case "approx":
		if !reNumeral.MatchString(line) && !strings.EqualFold(line, "nan") && !strings.Contains(strings.ToLower(line), "inf") {
			return "not a number"
		}
		if v.Ulps < 0 {
			return ""
		}
		f, err := strconv.ParseFloat(line, 64)
		if err != nil {
			return "not a number"
		}
		wb, ok := canonBits(v.N)
		if !ok {
			return "bad expectation"
		}
		if d := ulpDist(f, math.Float64frombits(wb)); d > float64(v.Ulps) {
			return fmt.Sprintf("%v is %.0f ulp from %v (tolerance %d)", f, d, math.Float64frombits(wb), v.Ulps)
		}
		return ""
	case "nil":
		if line != "nil" {
			return "expected nil"
		}
		return ""
	case "bool":
		if line != strconv.FormatBool(v.B) {
			return "expected " + strconv.FormatBool(v.B)
		}
		return ""
	case "anybool":
		if line != "true" && line != "false" {
			return "expected a boolean"
		}
		return ""
	case "fn":
		if !strings.Contains(line, v.Name) {
			return "function value does not show its name"
		}
		return ""
	case "nat":
		if line == "" {
			return "empty"
		}
		return ""
	case "arr", "obj":
		toks := compTokens(line)
		for _, e := range matchComp(v, toks, 0, strict) {
			if e == len(toks) {
				return ""
			}
		}
		return "does not show the expected elements"
	case "deep":
		return ""
	}
	return "unknown expected kind " + v.T
}

func valClass(v *XVal) string {
	switch v.T {
	case "arr", "obj":
		// what is inside matters for classifying findings
		inner := map[string]bool{}
		var walk func(x *XVal)
		walk = func(x *XVal) {
			switch x.T {
			case "arr":
				for i := range x.E {
					walk(&x.E[i])
				}
			case "obj":
				for i := range x.Vs {
					walk(&x.Vs[i])
				}
			default:
				inner[x.T] = true
			}
		}
		walk(v)
		s := v.T
		for _, k := range []string{"str", "num", "nil", "bool", "fn", "nat"} {
			if inner[k] {
				s += "+" + k
			}
		}
		return s
	}
	return v.T
}

// matchOut walks the expected output records over the actual stdout bytes.
// It returns the index of the first record that does not match (or len(exp) if only the tail differs), and a description.
func matchOut(exp []OutRec, actual string, strict bool) (int, string, string) {
	rest := actual
	ls := listState{}
	for i := range exp {
		r := &exp[i]
		if r.T == "prompt" {
			p := intsToString(r.S)
			if !strings.HasPrefix(rest, p) {
				return i, "prompt", fmt.Sprintf("expected prompt %q at %q", p, clip(rest, 40))
			}
			rest = rest[len(p):]
			continue
		}
		if r.V.T == "str" {
			w := intsToString(r.V.S) + "\n"
			if !strings.HasPrefix(rest, w) {
				if rest == "" {
					return i, r.T + ":str:missing", fmt.Sprintf("output ends before %q", clip(w, 40))
				}
				return i, r.T + ":str", fmt.Sprintf("expected %q, got %q", clip(w, 60), clip(rest, 60))
			}
			rest = rest[len(w):]
			continue
		}
		nl := strings.IndexByte(rest, '\n')
		if nl < 0 {
			if rest == "" {
				return i, r.T + ":" + valClass(&r.V) + ":missing", "output ends before this line"
			}
			return i, r.T + ":" + valClass(&r.V) + ":no-newline", fmt.Sprintf("unterminated line %q", clip(rest, 60))
		}
		line := rest[:nl]
		if why := matchLine(&r.V, line, strict, ls); why != "" {
			return i, r.T + ":" + valClass(&r.V), fmt.Sprintf("line %q: %s", clip(line, 80), why)
		}
		rest = rest[nl+1:]
	}
	if rest != "" {
		return len(exp), "extra-output", fmt.Sprintf("unexpected output %q", clip(rest, 80))
	}
	return -1, "", ""
}

func clip(s string, n int) string {
	if len(s) > n {
		return s[:n] + "..."
	}
	return s
}

// ---- diagnostics: wording is free; a tolerant keyword table maps messages to the kinds of the specification

var diagKinds = []struct {
	kind string
	re   *regexp.Regexp
}{
	{"stray", regexp.MustCompile(`(?i)outside of (loop|function)|unexpected '(break|continue|return)'`)},
	{"redeclare", regexp.MustCompile(`(?i)redeclare|already (declared|defined)`)},
	{"undef", regexp.MustCompile(`(?i)not defined|undefined variable|undefined name|undeclared`)},
	{"zero", regexp.MustCompile(`(?i)division by zero|divide by zero|modulo by zero`)},
	{"shift", regexp.MustCompile(`(?i)shift`)},
	{"arity", regexp.MustCompile(`(?i)expected \d+ arguments|wrong number of arguments|arity`)},
	{"callee", regexp.MustCompile(`(?i)can only call|not callable|not a function`)},
	{"native", regexp.MustCompile(`(?i)function call failed|built-?in`)},
	{"index", regexp.MustCompile(`(?i)index|not an array`)},
	{"property", regexp.MustCompile(`(?i)property|not an object`)},
	{"operand", regexp.MustCompile(`(?i)operand|must be (a |an )?(number|integer|string)|expected an? (number|integer)|cannot stringify`)},
}

func classifyDiag(msg string) string {
	for _, k := range diagKinds {
		if k.re.MatchString(msg) {
			return k.kind
		}
	}
	return "unclassified"
}

// kinds the comparator treats as the same class (the properties do not separate them)
func kindClass(k string) string {
	switch k {
	case "arity", "native":
		return "call-misuse"
	case "shift", "operand":
		return "operand"
	}
	return k
}
