package main

import (
	"bufio"
	"crypto/sha1"
	"encoding/json"
	"fmt"
	"os"
	"os/exec"
	"path/filepath"
	"regexp"
	"runtime"
	"sort"
	"strconv"
	"strings"
	"time"
)

// verifRoot is the framework directory: VERIF_ROOT (set by ./check to its own directory) or /verif.
var verifRoot = func() string {
	if r := os.Getenv("VERIF_ROOT"); r != "" {
		return r
	}
	return "/verif"
}()
const tlaJar = "/opt/veriftools/tla/tla2tools.jar"
const cmJar = "/opt/veriftools/tla/CommunityModules-deps.jar"

// ---------------------------------------------------------------------------------------------- context

type Ctx struct {
	Prop     string
	Tier     string
	Seed     int
	Work     string // scratch dir under /verif/.work
	Start    time.Time
	Pool     *Pool
	CLI      string // path of the borno executable rebuilt from /repo
	Viol     []*Violation
	violSeen map[string]int
	Known    []KnownFinding
	Ev       Evidence
	Notes    []string
	Infra    []string // infrastructure problems: exit 2
	lastFile string
}

type Violation struct {
	Sig    string      `json:"sig"`   // stable signature: what kind of case fails and how
	Key    string      `json:"key"`   // the concrete case
	Detail interface{} `json:"detail"`
	Count  int         `json:"count"`
}

type KnownFinding struct {
	Property string `json:"property"`
	Status   string `json:"status"` // open | fixed
	Pattern  string `json:"pattern"`
	Desc     string `json:"desc"`
	Input    string `json:"input,omitempty"`
	Commit   string `json:"commit,omitempty"`
	re       *regexp.Regexp
}

type Evidence struct {
	PropertyID  string                 `json:"property_id"`
	Tier        string                 `json:"tier"`
	Seed        int                    `json:"seed"`
	Level       string                 `json:"level"`
	Coverage    map[string]interface{} `json:"coverage"`
	Assumptions []string               `json:"assumptions"`
	WallS       float64                `json:"wall_s"`
	Violations  int                    `json:"violations"`
}

func (c *Ctx) cov(k string, v interface{}) { c.Ev.Coverage[k] = v }
func (c *Ctx) addInt(k string, n int64) {
	if v, ok := c.Ev.Coverage[k].(int64); ok {
		c.Ev.Coverage[k] = v + n
	} else {
		c.Ev.Coverage[k] = n
	}
}
func (c *Ctx) sample(v interface{}) {
	s, _ := c.Ev.Coverage["samples"].([]interface{})
	if len(s) < 6 {
		c.Ev.Coverage["samples"] = append(s, v)
	}
}
func (c *Ctx) infra(f string, a ...interface{}) {
	c.Infra = append(c.Infra, fmt.Sprintf(f, a...))
}

// violation registers a failing case; only the first few cases per signature keep their detail.
func (c *Ctx) violation(sig, key string, detail interface{}) {
	if c.violSeen == nil {
		c.violSeen = map[string]int{}
	}
	if i, ok := c.violSeen[sig]; ok {
		c.Viol[i].Count++
		return
	}
	c.violSeen[sig] = len(c.Viol)
	c.Viol = append(c.Viol, &Violation{Sig: sig, Key: key, Detail: detail, Count: 1})
}

// known_findings.txt (committed, never written at run time), one finding per line:
//   open: property=<id> pattern=<regexp over violation signatures> :: <what fails>
//   fixed: property=<id> <commit> <what failed>            (suppresses nothing)
var reOpen = regexp.MustCompile(`^open:\s+property=(\S+)\s+pattern=(\S+)\s+::\s*(.*)$`)

func loadKnown() []KnownFinding {
	var out []KnownFinding
	f, err := os.Open(filepath.Join(verifRoot, "known_findings.txt"))
	if err != nil {
		return nil
	}
	defer f.Close()
	sc := bufio.NewScanner(f)
	sc.Buffer(make([]byte, 1<<20), 1<<20)
	for sc.Scan() {
		l := strings.TrimSpace(sc.Text())
		if m := reOpen.FindStringSubmatch(l); m != nil {
			re, err := regexp.Compile(m[2])
			if err != nil {
				fmt.Fprintf(os.Stderr, "known_findings.txt: bad pattern %q: %v\n", m[2], err)
				continue
			}
			out = append(out, KnownFinding{Property: m[1], Status: "open", Pattern: m[2], Desc: m[3], re: re})
		}
	}
	return out
}

// ---------------------------------------------------------------------------------------------- TLC

type TLCJob struct {
	Module   string
	Cfg      string
	Workers  int
	Simulate string // e.g. "num=200" (with -depth / -seed) ; "" = exhaustive BFS
	Depth    int
	Timeout  time.Duration
	OutFile  string
	Defs     map[string]string // -D system properties
	Coverage bool
	Consts   map[string]string // constants of the cfg overridden for this run ("Slice" -> "3")
}

type TLCResult struct {
	Generated, Distinct int64
	Depth               int
	MaxOutdegree        int
	Err                 string
	Log                 string
	Wall                float64
}

var reStates = regexp.MustCompile(`(\d+) states generated, (\d+) distinct states found`)
var reDepth = regexp.MustCompile(`depth of the complete state graph search is (\d+)`)
var reSim = regexp.MustCompile(`(\d+) states checked`)
var reOutdeg = regexp.MustCompile(`the maximum (\d+)`)

// runTLCRaw runs TLC without turning a TLC error into an infrastructure problem (trace validation interprets it).
func (c *Ctx) runTLCRaw(j TLCJob) TLCResult {
	n := len(c.Infra)
	r := c.runTLC(j)
	c.Infra = c.Infra[:n]
	return r
}

func (c *Ctx) runTLC(j TLCJob) TLCResult {
	t0 := time.Now()
	dir := filepath.Join(c.Work, "tlc_"+strings.TrimSuffix(filepath.Base(j.Cfg), ".cfg"))
	os.MkdirAll(dir, 0755)
	for _, pat := range []string{"spec/*.tla", "spec/fam/*.tla", "spec/fam/*.cfg", "spec/trace/*.tla", "spec/trace/*.cfg"} {
		fs, _ := filepath.Glob(filepath.Join(verifRoot, pat))
		for _, f := range fs {
			b, _ := os.ReadFile(f)
			os.WriteFile(filepath.Join(dir, filepath.Base(f)), b, 0644)
		}
	}
	if len(j.Consts) > 0 {
		b, _ := os.ReadFile(filepath.Join(dir, filepath.Base(j.Cfg)))
		txt := string(b)
		for k, v := range j.Consts {
			txt = regexp.MustCompile(`(?m)^(\s*)`+regexp.QuoteMeta(k)+`\s*=.*$`).ReplaceAllString(txt, "${1}"+k+" = "+v)
		}
		os.WriteFile(filepath.Join(dir, filepath.Base(j.Cfg)), []byte(txt), 0644)
	}
	if j.Workers == 0 {
		j.Workers = runtime.NumCPU()
	}
	if j.Timeout == 0 {
		j.Timeout = 20 * time.Minute
	}
	args := []string{"-XX:+UseParallelGC", "-Xss512m", "-Xmx28g"}
	if j.OutFile != "" {
		os.Remove(j.OutFile)
		args = append(args, "-Dverif.out="+j.OutFile)
	}
	args = append(args, "-Dverif.seed="+strconv.Itoa(c.Seed), "-Dfile.encoding=UTF-8", // JSON traces carry Bangla names: without this the JVM reads them as U+FFFD
		"-Dtlc2.tool.queue.IStateQueue=MemStateQueue") // TLC's disk queue writes strings byte-wise: a state that went to disk comes back with U+09DF as U+FFDF
	for k, v := range j.Defs {
		args = append(args, "-D"+k+"="+v)
	}
	args = append(args, "-Djava.io.tmpdir="+dir) // TLC unpacks helper files into a temporary directory per run: keep them in the scratch directory
	args = append(args, "-cp", tlaJar+":"+cmJar+":"+filepath.Join(verifRoot, "build/classes"), "tlc2.TLC",
		"-metadir", filepath.Join(dir, "md"), "-workers", strconv.Itoa(j.Workers), "-config", filepath.Base(j.Cfg))
	if j.Simulate != "" {
		args = append(args, "-simulate", j.Simulate, "-depth", strconv.Itoa(j.Depth), "-seed", strconv.Itoa(c.Seed))
	}
	if j.Coverage {
		args = append(args, "-coverage", "1")
	}
	args = append(args, j.Module)
	cmd := exec.Command("java", args...)
	cmd.Dir = dir
	var res TLCResult
	done := make(chan struct{})
	var out []byte
	var err error
	go func() { out, err = cmd.CombinedOutput(); close(done) }()
	select {
	case <-done:
	case <-time.After(j.Timeout):
		if cmd.Process != nil {
			cmd.Process.Kill()
		}
		<-done
		res.Err = "TLC timeout after " + j.Timeout.String()
	}
	var keep []string
	for _, l := range strings.Split(string(out), "\n") {
		if strings.HasPrefix(l, "Loading ") {
			continue
		}
		keep = append(keep, l)
	}
	res.Log = strings.Join(keep, "\n")
	if m := reStates.FindAllStringSubmatch(res.Log, -1); len(m) > 0 {
		last := m[len(m)-1]
		res.Generated, _ = strconv.ParseInt(last[1], 10, 64)
		res.Distinct, _ = strconv.ParseInt(last[2], 10, 64)
	} else if m := reSim.FindAllStringSubmatch(res.Log, -1); len(m) > 0 {
		res.Generated, _ = strconv.ParseInt(m[len(m)-1][1], 10, 64)
		res.Distinct = res.Generated
	}
	if m := reOutdeg.FindStringSubmatch(res.Log); m != nil {
		res.MaxOutdegree, _ = strconv.Atoi(m[1])
	}
	if m := reDepth.FindStringSubmatch(res.Log); m != nil {
		res.Depth, _ = strconv.Atoi(m[1])
	}
	if res.Err == "" {
		if i := strings.Index(res.Log, "Error:"); i >= 0 {
			e := res.Log[i:]
			if len(e) > 3000 {
				e = e[:3000]
			}
			res.Err = e
		} else if err != nil && !strings.Contains(res.Log, "No error has been found") && j.Simulate == "" {
			res.Err = "TLC failed: " + err.Error()
		}
	}
	res.Wall = time.Since(t0).Seconds()
	os.WriteFile(filepath.Join(dir, "tlc.log"), []byte(res.Log), 0644)
	c.addInt("states", res.Distinct)
	c.addInt("transitions", res.Generated)
	cmds, _ := c.Ev.Coverage["tlc_runs"].([]interface{})
	c.Ev.Coverage["tlc_runs"] = append(cmds, map[string]interface{}{"module": j.Module, "cfg": filepath.Base(j.Cfg),
		"simulate": j.Simulate, "generated": res.Generated, "distinct": res.Distinct, "depth": res.Depth, "max_outdegree": res.MaxOutdegree, "wall_s": res.Wall})
	if res.Err != "" {
		c.infra("TLC %s/%s: %s", j.Module, filepath.Base(j.Cfg), res.Err)
	}
	return res
}

// forEachLine streams an NDJSON file.
func forEachLine(path string, f func(line []byte) error) error {
	fh, err := os.Open(path)
	if err != nil {
		return err
	}
	defer fh.Close()
	rd := bufio.NewReaderSize(fh, 4<<20)
	for {
		l, err := rd.ReadBytes('\n')
		if len(l) > 1 {
			if e := f(l); e != nil {
				return e
			}
		}
		if err != nil {
			return nil
		}
	}
}

// ---------------------------------------------------------------------------------------------- build of /repo

func goEnv() []string {
	env := os.Environ()
	env = append(env, "GOFLAGS=-mod=mod", "GOPROXY=off", "GOSUMDB=off", "GOTOOLCHAIN=local", "CGO_ENABLED=0")
	return env
}

func (c *Ctx) buildCLI() error {
	c.CLI = filepath.Join(c.Work, "borno")
	cmd := exec.Command("go", "build", "-o", c.CLI, "github.com/ah-naf/borno")
	cmd.Dir = filepath.Join(verifRoot, "harness")
	if d := os.Getenv("VERIF_HARNESS_DIR"); d != "" {
		cmd.Dir = d // development: a copy of the harness module whose replace directive points at a scratch copy of the tree
	}
	cmd.Env = goEnv()
	out, err := cmd.CombinedOutput()
	if err != nil {
		return fmt.Errorf("building the borno executable from /repo failed: %v\n%s", err, out)
	}
	return nil
}

type CLIRun struct {
	Args   []string
	Stdin  string
	Out    string
	Err    string
	Exit   int
	Killed bool
}

func (c *Ctx) runCLI(args []string, stdin string, timeout time.Duration) CLIRun {
	cmd := exec.Command(c.CLI, args...)
	cmd.Dir = c.Work
	cmd.Stdin = strings.NewReader(stdin)
	var ob, eb strings.Builder
	cmd.Stdout = &capWriter{b: &ob, max: 1 << 20}
	cmd.Stderr = &capWriter{b: &eb, max: 1 << 20}
	r := CLIRun{Args: args, Stdin: stdin}
	if err := cmd.Start(); err != nil {
		r.Exit = -1
		r.Err = err.Error()
		return r
	}
	done := make(chan error, 1)
	go func() { done <- cmd.Wait() }()
	select {
	case <-done:
	case <-time.After(timeout):
		cmd.Process.Kill()
		<-done
		r.Killed = true
	}
	r.Out, r.Err = ob.String(), eb.String()
	if cmd.ProcessState != nil {
		r.Exit = cmd.ProcessState.ExitCode()
	}
	return r
}

type capWriter struct {
	b   *strings.Builder
	max int
}

func (w *capWriter) Write(p []byte) (int, error) {
	if w.b.Len() < w.max {
		n := w.max - w.b.Len()
		if n > len(p) {
			n = len(p)
		}
		w.b.Write(p[:n])
	}
	return len(p), nil
}

// ---------------------------------------------------------------------------------------------- main

type checkFn func(c *Ctx)

var checks = map[string]checkFn{}
var levels = map[string]string{}

func usage() {
	fmt.Fprintln(os.Stderr, "usage: bornocheck <Cxx> [--tier quick|thorough] [--replay file]")
	os.Exit(2)
}

func main() {
	if len(os.Args) >= 2 && os.Args[1] == "worker" {
		workerMain()
		return
	}
	if len(os.Args) >= 3 && os.Args[1] == "run" {
		// debugging aid: bornocheck run <file.bn> [stdin-file] : one in-process run, result as JSON
		b, _ := os.ReadFile(os.Args[2])
		in := ""
		if len(os.Args) >= 4 {
			x, _ := os.ReadFile(os.Args[3])
			in = string(x)
		}
		work, _ := os.MkdirTemp(filepath.Join(verifRoot, ".work"), "run")
		defer os.RemoveAll(work)
		p := &Pool{N: 1, WorkDir: work}
		cs := make(chan *Case, 1)
		cs <- &Case{ID: 1, Mode: "run", Src: string(b), Stdin: in, WantT: false, Trace: os.Getenv("VERIF_TRACE") != ""}
		close(cs)
		p.Run(cs, func(c *Case, r *Result) {
			j, _ := json.MarshalIndent(r, "", " ")
			fmt.Println(string(j))
		})
		return
	}
	if len(os.Args) < 2 {
		usage()
	}
	prop := os.Args[1]
	tier := os.Getenv("VERIF_TIER")
	replay := ""
	for i := 2; i < len(os.Args); i++ {
		switch os.Args[i] {
		case "--tier":
			i++
			tier = os.Args[i]
		case "--replay":
			i++
			replay = os.Args[i]
		}
	}
	if tier != "thorough" {
		tier = "quick"
	}
	seed := 1
	if s := os.Getenv("VERIF_SEED"); s != "" {
		if n, err := strconv.Atoi(s); err == nil {
			seed = n & 0x3fffffff
		}
	}
	fn, ok := checks[prop]
	if !ok {
		fmt.Fprintf(os.Stderr, "unknown property %s\n", prop)
		os.Exit(2)
	}
	work := filepath.Join(verifRoot, ".work", fmt.Sprintf("%s_%d", prop, os.Getpid()))
	os.MkdirAll(work, 0755)
	if os.Getenv("VERIF_KEEP") == "" {
		defer os.RemoveAll(work)
	}
	c := &Ctx{Prop: prop, Tier: tier, Seed: seed, Work: work, Start: time.Now(), Known: loadKnown()}
	c.Ev = Evidence{PropertyID: prop, Tier: tier, Seed: seed, Level: "model_checking", Assumptions: []string{}, Coverage: map[string]interface{}{
		"states": int64(0), "transitions": int64(0), "traces_validated_against_impl": int64(0), "samples": []interface{}{}}}
	c.Pool = &Pool{N: runtime.NumCPU(), WorkDir: work, Timeout: 90 * time.Second}
	code := 0
	func() {
		defer func() {
			if p := recover(); p != nil {
				c.infra("harness panic: %v", p)
				buf := make([]byte, 8192)
				n := runtime.Stack(buf, false)
				c.Infra = append(c.Infra, string(buf[:n]))
			}
		}()
		if err := c.buildCLI(); err != nil {
			c.infra("%v", err)
			return
		}
		if replay != "" {
			runReplay(c, replay)
			return
		}
		os.RemoveAll(filepath.Join(outRoot(), "replays", prop)) // replay files of earlier runs are stale
		fn(c)
	}()
	code = c.finish(replay != "")
	if os.Getenv("VERIF_KEEP") == "" {
		os.RemoveAll(work)
	}
	os.Exit(code)
}

func (c *Ctx) finish(isReplay bool) int {
	// classify violations against the known-findings file
	var unknown []*Violation
	knownHit := map[int][]*Violation{}
	for _, v := range c.Viol {
		hit := -1
		for i, k := range c.Known {
			if k.Property == c.Prop && k.Status == "open" && k.re.MatchString(v.Sig) {
				hit = i
				break
			}
		}
		if hit >= 0 {
			knownHit[hit] = append(knownHit[hit], v)
		} else {
			unknown = append(unknown, v)
		}
	}
	var kidx []int
	for i := range knownHit {
		kidx = append(kidx, i)
	}
	sort.Ints(kidx)
	nKnownCases := 0
	for _, i := range kidx {
		n := 0
		for _, v := range knownHit[i] {
			n += v.Count
		}
		nKnownCases += n
		fmt.Printf("KNOWN-FINDING: property=%s %s (%d cases, e.g. %s)\n", c.Prop, c.Known[i].Desc, n, knownHit[i][0].Key)
	}
	for _, n := range c.Notes {
		fmt.Println("note: " + n)
	}
	code := 0
	if len(c.Infra) > 0 {
		for _, s := range c.Infra {
			fmt.Fprintln(os.Stderr, "INFRA: "+s)
			fmt.Println("INFRA: " + firstLine(s))
		}
		code = 2
	}
	if len(unknown) > 0 {
		dir := filepath.Join(outRoot(), "replays", c.Prop)
		os.MkdirAll(dir, 0755)
		sort.Slice(unknown, func(i, j int) bool { return unknown[i].Sig < unknown[j].Sig })
		for i, v := range unknown {
			if i >= 40 {
				fmt.Printf("... and %d more violation signatures\n", len(unknown)-i)
				break
			}
			h := sha1.Sum([]byte(v.Sig + "|" + v.Key))
			path := filepath.Join(dir, fmt.Sprintf("%x.json", h[:6]))
			b, _ := json.MarshalIndent(v, "", " ")
			os.WriteFile(path, b, 0644)
			fmt.Printf("VIOLATION property=%s replay=%s sig=%q cases=%d\n", c.Prop, path, v.Sig, v.Count)
		}
		code = 1
	}
	if isReplay {
		return code
	}
	if s, _ := c.Ev.Coverage["samples"].([]interface{}); len(s) == 0 {
		c.Ev.Coverage["samples"] = []interface{}{map[string]interface{}{"note": "no case was sampled in this run (see the tlc_runs and families entries)"}}
	}
	c.Ev.WallS = time.Since(c.Start).Seconds()
	c.Ev.Violations = len(unknown)
	c.cov("known_finding_cases", nKnownCases)
	c.cov("violation_signatures_unknown", len(unknown))
	if c.Pool != nil {
		c.cov("worker_restarts", c.Pool.Restarts)
	}
	if code != 2 {
		os.MkdirAll(filepath.Join(outRoot(), "evidence"), 0755)
		b, _ := json.MarshalIndent(c.Ev, "", " ")
		os.WriteFile(filepath.Join(outRoot(), "evidence", c.Prop+".json"), append(b, '\n'), 0644)
	}
	fmt.Printf("%s %s seed=%d: %d violation signature(s), %d known-finding case(s), exit %d, %.1fs\n", c.Prop, c.Tier, c.Seed,
		len(unknown), nKnownCases, code, c.Ev.WallS)
	return code
}

func firstLine(s string) string {
	if i := strings.IndexByte(s, '\n'); i >= 0 {
		return s[:i]
	}
	return s
}

// runReplay re-runs one recorded case (written by a previous VIOLATION) against the current tree.
func runReplay(c *Ctx, path string) {
	b, err := os.ReadFile(path)
	if err != nil {
		c.infra("replay: %v", err)
		return
	}
	var v Violation
	if err := json.Unmarshal(b, &v); err != nil {
		c.infra("replay: %v", err)
		return
	}
	fn, ok := replayers[c.Prop]
	if !ok {
		c.infra("replay not supported for %s", c.Prop)
		return
	}
	fn(c, &v)
}

var replayers = map[string]func(c *Ctx, v *Violation){}

// outRoot: where replay files and evidence go - the framework root, except in development runs against a scratch copy
// of the tree (VERIF_REPO), whose results must not overwrite the evidence of /repo itself.
func outRoot() string {
	if os.Getenv("VERIF_REPO") != "" {
		return filepath.Join(verifRoot, ".work", "dev."+filepath.Base(os.Getenv("VERIF_REPO")))
	}
	return verifRoot
}
