package main

import (
	"encoding/json"
	"fmt"
	"path/filepath"
	"strconv"
	"strings"
	"time"
	"unicode"
)

// ---- records emitted by FamLex / FamNum (spec -> code)

type LexTok struct {
	Ty  string `json:"ty"`
	A   int    `json:"a"`
	B   int    `json:"b"`
	Ln  int    `json:"ln"`
	Lit struct {
		K    string `json:"k"`
		N    string `json:"n"`
		Bits string `json:"bits"`
		S    []int  `json:"s"`
	} `json:"lit"`
}

type LexRec struct {
	Fam   string   `json:"fam"`
	Text  []int    `json:"text"`
	Toks  []LexTok `json:"toks"`
	Diags []int    `json:"diags"`
}

func intsToString(cps []int) string {
	r := make([]rune, len(cps))
	for i, c := range cps {
		r[i] = rune(c)
	}
	return string(r)
}

func eqInts(a, b []int) bool {
	if len(a) != len(b) {
		return false
	}
	for i := range a {
		if a[i] != b[i] {
			return false
		}
	}
	return true
}

func staticDiagLines(r *Result) []int {
	var o []int
	for _, e := range r.Events {
		if e.E == "diag" && e.Kind == "static" {
			o = append(o, e.Line)
		}
	}
	return o
}

// compareLex returns "" or a short description of the first difference (class of difference, detail).
func compareLex(rec *LexRec, r *Result) (string, string) {
	if r.Crash != "" {
		return "crash", firstLine(r.Crash)
	}
	if r.Panic != "" {
		return "panic", firstLine(r.Panic)
	}
	n := len(rec.Toks)
	if len(r.Toks) != n {
		// find first differing position for the detail
		return "token-count", fmt.Sprintf("expected %d tokens, got %d", n, len(r.Toks))
	}
	for i, e := range rec.Toks {
		g := r.Toks[i]
		if g.Ty != e.Ty {
			return "type:" + e.Ty + "->" + g.Ty, fmt.Sprintf("token %d", i)
		}
		var lex []int
		if e.A <= e.B {
			lex = rec.Text[e.A-1 : e.B]
		}
		if !eqInts(lex, g.Lex) {
			return "lexeme:" + e.Ty, fmt.Sprintf("token %d expected %q got %q", i, intsToString(lex), intsToString(g.Lex))
		}
		if g.Ln != e.Ln {
			return "line:" + e.Ty, fmt.Sprintf("token %d expected line %d got %d", i, e.Ln, g.Ln)
		}
		switch e.Lit.K {
		case "none":
			if g.LitK != "none" {
				return "literal:" + e.Ty, fmt.Sprintf("token %d has unexpected literal %s", i, g.LitK)
			}
		case "num":
			if g.LitK != "num" || g.Bits != e.Lit.Bits {
				return "number-value", fmt.Sprintf("token %d expected %s (%s) got %s %s", i, e.Lit.N, e.Lit.Bits, g.LitK, g.Bits)
			}
		case "str":
			if g.LitK != "str" || !eqInts(g.Str, e.Lit.S) {
				return "string-value", fmt.Sprintf("token %d expected %q got %q", i, intsToString(e.Lit.S), intsToString(g.Str))
			}
		}
	}
	dl := staticDiagLines(r)
	if !eqInts(dl, rec.Diags) {
		if len(dl) != len(rec.Diags) {
			return "diag-count", fmt.Sprintf("expected diagnostics at lines %v got %v", rec.Diags, dl)
		}
		return "diag-line", fmt.Sprintf("expected diagnostics at lines %v got %v", rec.Diags, dl)
	}
	if (len(rec.Diags) > 0) != r.HadErr {
		return "had-error-flag", fmt.Sprintf("diagnostics %v but HadError=%v", rec.Diags, r.HadErr)
	}
	return "", ""
}

// replayLexFile streams the records of one emitted file through the real scanner.
func (c *Ctx) replayLexFile(path, family string) (n, nontrivial int64) {
	cases := make(chan *Case, 1024)
	recs := map[int]*LexRec{}
	go func() {
		id := 0
		forEachLine(path, func(line []byte) error {
			var rec LexRec
			if err := json.Unmarshal(line, &rec); err != nil {
				c.infra("bad record in %s: %v", path, err)
				return nil
			}
			id++
			c.Pool.mu.Lock()
			recs[id] = &rec
			c.Pool.mu.Unlock()
			cases <- &Case{ID: id, Mode: "lex", Src: intsToString(rec.Text)}
			return nil
		})
		close(cases)
	}()
	err := c.Pool.Run(cases, func(cs *Case, r *Result) {
		rec := recs[cs.ID]
		delete(recs, cs.ID)
		n++
		if len(rec.Toks) > 2 || len(rec.Diags) > 0 {
			nontrivial++
		}
		if n%40000 == 1 {
			c.sample(map[string]interface{}{"family": family, "text": intsToString(rec.Text), "expected_tokens": len(rec.Toks), "expected_diag_lines": rec.Diags})
		}
		if what, detail := compareLex(rec, r); what != "" {
			c.violation(c.Prop+"|"+family+"|"+what, strconv.Quote(intsToString(rec.Text)),
				map[string]interface{}{"mode": "lex", "text": rec.Text, "src": intsToString(rec.Text), "expected": rec, "observed": r, "detail": detail})
		}
	})
	if err != nil {
		c.infra("%v", err)
	}
	return
}

// single code points: classification by the Unicode tables (they are the definition of "letter" and "mark"),
// expected result = the specification's result for a one-character text of that class.  With a prefix ("7": inside a
// numeral, "k": inside a name) the same sweep decides for every code point whether it continues the token before it.
func (c *Ctx) lexAllCodePoints() int64 { return c.lexAllCodePointsAfter("") }

func (c *Ctx) lexAllCodePointsAfter(prefix string) int64 {
	cases := make(chan *Case, 1024)
	go func() {
		for cp := 0; cp <= 0x10FFFF; cp++ {
			if cp >= 0xD800 && cp <= 0xDFFF {
				continue
			}
			cases <- &Case{ID: cp, Mode: "lex", Src: prefix + string(rune(cp))}
		}
		close(cases)
	}()
	ops := map[int]string{'(': "LEFT_PAREN", ')': "RIGHT_PAREN", '{': "LEFT_BRACE", '}': "RIGHT_BRACE", '[': "LEFT_BRACKET", ']': "RIGHT_BRACKET",
		',': "COMMA", '.': "DOT", '-': "MINUS", '+': "PLUS", ';': "SEMICOLON", ':': "COLON", '|': "OR", '&': "AND", '^': "XOR", '~': "NOT",
		'*': "STAR", '!': "BANG", '=': "EQUAL", '<': "LESS", '>': "GREATER", '%': "MODULO", '/': "SLASH"}
	var n int64
	err := c.Pool.Run(cases, func(cs *Case, r *Result) {
		n++
		cp := cs.ID
		rec := &LexRec{Text: []int{cp}}
		at := 1 // position of the swept character
		if prefix != "" {
			rec.Text = []int{int(prefix[0]), cp}
			at = 2
		}
		eofLine := 1
		r0 := rune(cp)
		isDigit := (cp >= '0' && cp <= '9') || (cp >= 0x09E6 && cp <= 0x09EF)
		isAlpha := unicode.IsLetter(r0) || unicode.IsMark(r0) || cp == '_'
		digitOf := func(cp int) int {
			if cp >= 0x09E6 {
				return cp - 0x09E6
			}
			return cp - '0'
		}
		num := func(v float64, a, b int) LexTok {
			t := LexTok{Ty: "NUMBER", A: a, B: b, Ln: 1}
			t.Lit.K = "num"
			t.Lit.Bits = bitsOf(v)
			return t
		}
		joined := false
		switch {
		case prefix == "7" && isDigit:
			rec.Toks = append(rec.Toks, num(float64(70+digitOf(cp)), 1, 2))
			joined = true
		case prefix == "7":
			rec.Toks = append(rec.Toks, num(7, 1, 1))
		case prefix == "k" && (isDigit || isAlpha):
			rec.Toks = append(rec.Toks, LexTok{Ty: "IDENTIFIER", A: 1, B: 2, Ln: 1})
			joined = true
		case prefix == "k":
			rec.Toks = append(rec.Toks, LexTok{Ty: "IDENTIFIER", A: 1, B: 1, Ln: 1})
		}
		if !joined {
			switch {
			case ops[cp] != "":
				rec.Toks = append(rec.Toks, LexTok{Ty: ops[cp], A: at, B: at, Ln: 1})
			case cp == '\n':
				eofLine = 2
			case cp == ' ' || cp == '\t' || cp == '\r':
			case cp == '"':
				rec.Diags = []int{1}
			case isDigit:
				rec.Toks = append(rec.Toks, num(float64(digitOf(cp)), at, at))
			case isAlpha:
				rec.Toks = append(rec.Toks, LexTok{Ty: "IDENTIFIER", A: at, B: at, Ln: 1})
			default:
				rec.Diags = []int{1}
			}
		}
		for i := range rec.Toks {
			if rec.Toks[i].Lit.K == "" {
				rec.Toks[i].Lit.K = "none"
			}
		}
		e := LexTok{Ty: "EOF", A: at + 1, B: at, Ln: eofLine}
		e.Lit.K = "none"
		rec.Toks = append(rec.Toks, e)
		if what, detail := compareLex(rec, r); what != "" {
			c.violation(c.Prop+"|codepoint"+prefix+"|"+what, fmt.Sprintf("%sU+%04X", prefix, cp),
				map[string]interface{}{"mode": "lex", "text": rec.Text, "src": cs.Src, "expected": rec, "observed": r, "detail": detail})
		}
	})
	if err != nil {
		c.infra("%v", err)
	}
	return n
}

func checkC09(c *Ctx) {
	cfg := "FamLex_quick.cfg"
	if c.Tier == "thorough" {
		cfg = "FamLex_thorough.cfg"
	}
	out := filepath.Join(c.Work, "lex.ndjson")
	res := c.runTLC(TLCJob{Module: "FamLex", Cfg: cfg, OutFile: out, Timeout: 40 * time.Minute})
	var n, nt int64
	if res.Err == "" {
		n, nt = c.replayLexFile(out, "exhaustive")
	}
	// random long texts
	simOut := filepath.Join(c.Work, "lexsim.ndjson")
	num := 300
	if c.Tier == "thorough" {
		num = 6000
	}
	sres := c.runTLC(TLCJob{Module: "FamLex", Cfg: "FamLex_sim.cfg", OutFile: simOut, Simulate: fmt.Sprintf("num=%d", num), Depth: 600, Workers: 1, Timeout: 20 * time.Minute})
	var sn, snt int64
	if sres.Err == "" {
		sn, snt = c.replayLexFile(simOut, "random-long")
	}
	cpn := c.lexAllCodePoints() + c.lexAllCodePointsAfter("k")
	c.cov("traces_validated_against_impl", n+sn+cpn)
	c.cov("evaluations", n+sn+cpn)
	c.cov("distinct_nontrivial", nt+snt)
	c.cov("exhaustive", true)
	c.cov("rule", "every text of <= MaxFrag fragments over the fragment alphabet of FamLex (each emitted once per distinct text by TLC; non-trivial = more than one token besides EOF or at least one diagnostic), "+
		"random long texts from tlc -simulate, and every Unicode scalar value as a one-character text")
	c.cov("bounds", map[string]interface{}{"cfg": cfg, "simulated_texts": sn, "code_points": cpn})
	c.Ev.Assumptions = []string{"TLC and the Host override (JVM BigDecimal) are correct", "Go's unicode tables define letter/mark for the per-code-point sweep",
		"diagnostics are observed through the verif-tagged hook in utils.report"}
}

func replayLexCase(c *Ctx, v *Violation) {
	b, _ := json.Marshal(v.Detail)
	var d struct {
		Text     []int   `json:"text"`
		Expected *LexRec `json:"expected"`
	}
	json.Unmarshal(b, &d)
	cases := make(chan *Case, 1)
	cases <- &Case{ID: 1, Mode: "lex", Src: intsToString(d.Text)}
	close(cases)
	c.Pool.N = 1
	c.Pool.Run(cases, func(cs *Case, r *Result) {
		if what, detail := compareLex(d.Expected, r); what != "" {
			c.violation(v.Sig, v.Key, map[string]interface{}{"detail": detail, "observed": r})
			fmt.Printf("replay: still failing: %s (%s)\n", what, detail)
		} else {
			fmt.Println("replay: case passes now")
		}
	})
}

// every code point on its own: only the ten Bangla digits are transliterated, nothing else is altered
func (c *Ctx) translitAllCodePoints() int64 {
	cases := make(chan *Case, 1024)
	go func() {
		for cp := 0; cp <= 0x10FFFF; cp++ {
			if cp >= 0xD800 && cp <= 0xDFFF {
				continue
			}
			cases <- &Case{ID: cp, Mode: "translit", Src: string(rune(cp))}
		}
		close(cases)
	}()
	var n int64
	err := c.Pool.Run(cases, func(cs *Case, r *Result) {
		n++
		want := cs.Src
		if cs.ID >= 0x09E6 && cs.ID <= 0x09EF {
			want = string(rune('0' + cs.ID - 0x09E6))
		}
		if r.Panic != "" || r.Crash != "" || r.Out2 != want {
			c.violation("C10|translit|codepoint", fmt.Sprintf("U+%04X", cs.ID), map[string]interface{}{"mode": "translit", "src": cs.Src, "expected": want, "observed": r.Out2, "panic": r.Panic})
		}
	})
	if err != nil {
		c.infra("%v", err)
	}
	return n
}

func checkC10(c *Ctx) {
	cfg := "FamNum_quick.cfg"
	if c.Tier == "thorough" {
		cfg = "FamNum_thorough.cfg"
	}
	out := filepath.Join(c.Work, "num.ndjson")
	res := c.runTLC(TLCJob{Module: "FamNum", Cfg: cfg, OutFile: out, Timeout: 60 * time.Minute})
	var n, nt int64
	if res.Err == "" {
		n, nt = c.replayLexFile(out, "literals")
		// the same literals through the evaluator: `print <literal>;` must show a numeral denoting the correctly rounded value
		n2 := c.replayLiteralPrints(out)
		c.addInt("evaluations", n2)
	}
	cp := c.translitAllCodePoints() + c.lexAllCodePointsAfter("7")
	c.addInt("traces_validated_against_impl", n+cp)
	c.addInt("evaluations", n+cp)
	c.cov("distinct_nontrivial", nt)
	c.cov("exhaustive", true)
	c.cov("rule", "every string of <= MaxLen characters over the 20 digits of both scripts and the point (exhaustive), NRandom seeded random literals of up to 400+400 digits in random script mixtures, NRandom exact halfway cases between adjacent doubles (one unit below / exactly / above) and the special thresholds (largest double, overflow, smallest subnormal, smallest normal, 2^53); every code point through the transliteration helper and, written directly after a digit, through the scanner (does it continue the numeral?); expected value = BigDecimal correct rounding in the Host override; non-trivial = at least one NUMBER token or a diagnostic")
	c.Ev.Assumptions = []string{"JVM BigDecimal.doubleValue is correctly rounded (independent of Go's strconv)", "TLC and the Host override are correct"}
}

// replayLiteralPrints: for records that are a single NUMBER token, run `print <text>;` and check the printed numeral.
func (c *Ctx) replayLiteralPrints(path string) int64 {
	cases := make(chan *Case, 512)
	recs := map[int]*LexRec{}
	go func() {
		id := 0
		forEachLine(path, func(line []byte) error {
			var rec LexRec
			if json.Unmarshal(line, &rec) != nil || len(rec.Toks) != 2 || rec.Toks[0].Ty != "NUMBER" || len(rec.Diags) > 0 {
				return nil
			}
			id++
			if id%3 != c.Seed%3 && len(rec.Text) < 6 {
				return nil
			}
			c.Pool.mu.Lock()
			recs[id] = &rec
			c.Pool.mu.Unlock()
			cases <- &Case{ID: id, Mode: "run", Src: keywordSpelling["print"] + " " + intsToString(rec.Text) + ";\n"}
			return nil
		})
		close(cases)
	}()
	var n int64
	c.Pool.Run(cases, func(cs *Case, r *Result) {
		rec := recs[cs.ID]
		delete(recs, cs.ID)
		n++
		v := &XVal{T: "num", N: rec.Toks[0].Lit.N, Bits: rec.Toks[0].Lit.Bits}
		line := strings.TrimSuffix(r.Out, "\n")
		why := ""
		if r.Panic != "" || r.Crash != "" {
			why = "abnormal termination: " + firstLine(r.Panic+r.Crash)
		} else if len(runtimeDiags(r)) > 0 || r.HadErr {
			why = "diagnostic for a valid literal"
		} else {
			why = numText(line, v, true)
		}
		if why != "" {
			c.violation("C10|print-literal|"+strings.SplitN(why, " ", 2)[0], strconv.Quote(intsToString(rec.Text)), map[string]interface{}{"mode": "run", "src": cs.Src, "expected": v, "observed": r.Out, "detail": why})
		}
	})
	return n
}

func init() {
	checks["C10"] = checkC10
	replayers["C10"] = replayLexCase
	checks["C09"] = checkC09
	replayers["C09"] = replayLexCase
}
