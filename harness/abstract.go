package main

// Abstraction function: the concrete Go values of the implementation -> the shapes the specification uses.
// This is the only place where the two meet.

import (
	"fmt"
	"math"
	"reflect"
	"sort"
	"strconv"
	"strings"

	"github.com/ah-naf/borno/ast"
	"github.com/ah-naf/borno/token"
)

type Node = map[string]interface{}

func bitsOf(f float64) string { return fmt.Sprintf("%016x", math.Float64bits(f)) }

var binOpName = map[token.TokenType]string{
	token.PLUS: "+", token.MINUS: "-", token.STAR: "*", token.SLASH: "/", token.MODULO: "%", token.POWER: "**",
	token.AND: "&", token.OR: "|", token.XOR: "^", token.LEFT_SHIFT: "<<", token.RIGHT_SHIFT: ">>",
	token.EQUAL_EQUAL: "==", token.BANG_EQUAL: "!=", token.LESS: "<", token.LESS_EQUAL: "<=",
	token.GREATER: ">", token.GREATER_EQUAL: ">=", token.BANG: "!", token.NOT: "~",
	token.LOGICAL_AND: "and", token.LOGICAL_OR: "or",
}

func opName(t token.Token) string {
	if n, ok := binOpName[t.Type]; ok {
		return n
	}
	return "?" + tokName(t.Type)
}

func none() Node { return Node{"k": "none"} }

func absLit(v interface{}) Node {
	switch x := v.(type) {
	case nil:
		return Node{"k": "lit", "t": "nil"}
	case bool:
		return Node{"k": "lit", "t": "bool", "b": x}
	case float64:
		return Node{"k": "lit", "t": "num", "bits": bitsOf(x)}
	case []rune:
		return Node{"k": "lit", "t": "str", "s": runesToInts(x)}
	case string:
		return Node{"k": "lit", "t": "str", "s": cpsOf(x)}
	default:
		return Node{"k": "lit", "t": "other", "go": fmt.Sprintf("%T", v)}
	}
}

func absExprs(es []ast.Expr) []interface{} {
	o := make([]interface{}, len(es))
	for i, e := range es {
		o[i] = absExpr(e)
	}
	return o
}

func absExpr(e ast.Expr) Node {
	switch x := e.(type) {
	case nil:
		return none()
	case *ast.Literal:
		return absLit(x.Value)
	case *ast.Identifier:
		return Node{"k": "id", "name": x.Name.Lexeme}
	case *ast.Grouping:
		return Node{"k": "grp", "c": []interface{}{absExpr(x.Expression)}}
	case *ast.Unary:
		return Node{"k": "un", "op": opName(x.Operator), "c": []interface{}{absExpr(x.Right)}}
	case *ast.Binary:
		return Node{"k": "bin", "op": opName(x.Operator), "c": []interface{}{absExpr(x.Left), absExpr(x.Right)}}
	case *ast.Logical:
		return Node{"k": "log", "op": opName(x.Operator), "c": []interface{}{absExpr(x.Left), absExpr(x.Right)}}
	case *ast.AssignmentStmt:
		return Node{"k": "asg", "name": x.Name.Lexeme, "c": []interface{}{absExpr(x.Value)}}
	case *ast.ArrayAssignment:
		return Node{"k": "iasg", "c": []interface{}{absExpr(x.Array), absExpr(x.Index), absExpr(x.Value)}}
	case *ast.PropertyAssignment:
		return Node{"k": "pasg", "name": x.Property.Lexeme, "c": []interface{}{absExpr(x.Object), absExpr(x.Value)}}
	case *ast.Call:
		return Node{"k": "call", "c": append([]interface{}{absExpr(x.Callee)}, absExprs(x.Arguments)...)}
	case *ast.ArrayAccess:
		return Node{"k": "idx", "c": []interface{}{absExpr(x.Array), absExpr(x.Index)}}
	case *ast.PropertyAccess:
		return Node{"k": "prop", "name": x.Property.Lexeme, "c": []interface{}{absExpr(x.Object)}}
	case *ast.ArrayLiteral:
		return Node{"k": "arr", "c": absExprs(x.Elements)}
	case *ast.ObjectLiteral:
		m := Node{}
		for k, v := range x.Properties {
			m[k] = absExpr(v)
		}
		keys := x.Keys
		if len(keys) != len(x.Properties) {
			keys = make([]string, 0, len(x.Properties))
			for k := range x.Properties {
				keys = append(keys, k)
			}
			sort.Strings(keys)
		}
		return Node{"k": "obj", "props": m, "keys": keys}
	default:
		return absStmt(e)
	}
}

func absStmts(ss []ast.Stmt) []interface{} {
	o := make([]interface{}, len(ss))
	for i, s := range ss {
		o[i] = absStmt(s)
	}
	return o
}

func optStmt(s ast.Stmt) Node {
	if s == nil {
		return none()
	}
	return absStmt(s)
}

func optExpr(e ast.Expr) Node {
	if e == nil {
		return none()
	}
	return absExpr(e)
}

func absVar(v *ast.VarStmt) Node {
	return Node{"k": "var", "name": v.Name.Lexeme, "c": []interface{}{optExpr(v.Initializer)}}
}

func absStmt(s ast.Stmt) Node {
	switch x := s.(type) {
	case nil:
		return none()
	case *ast.ExpressionStatement:
		return Node{"k": "expr", "c": []interface{}{absExpr(x.Expression)}}
	case *ast.PrintStatement:
		return Node{"k": "print", "c": []interface{}{absExpr(x.Expression)}}
	case *ast.VarStmt:
		return absVar(x)
	case *ast.VarListStmt:
		c := make([]interface{}, len(x.Declarations))
		for i := range x.Declarations {
			c[i] = absVar(&x.Declarations[i])
		}
		return Node{"k": "varlist", "c": c}
	case *ast.BlockStmt:
		return Node{"k": "block", "c": absStmts(x.Block)}
	case *ast.IfStmt:
		return Node{"k": "if", "c": []interface{}{absExpr(x.Condition), absStmt(x.ThenBranch), optStmt(x.ElseBranch)}}
	case *ast.While:
		return Node{"k": "while", "c": []interface{}{absExpr(x.Condition), absStmt(x.Body)}}
	case *ast.ForStmt:
		cond := optExpr(x.Condition)
		// the parser synthesises a `true` literal (line 0) for an absent condition
		if l, ok := x.Condition.(*ast.Literal); ok && l.Line == 0 {
			if b, ok := l.Value.(bool); ok && b {
				cond = none()
			}
		}
		return Node{"k": "for", "c": []interface{}{optStmt(x.Initializer), cond, optExpr(x.Increment), absStmt(x.Body)}}
	case *ast.BreakStmt:
		return Node{"k": "break"}
	case *ast.ContinueStmt:
		return Node{"k": "continue"}
	case *ast.Return:
		return Node{"k": "return", "c": []interface{}{optExpr(x.Value)}}
	case *ast.FunctionStmt:
		ps := make([]interface{}, len(x.Params))
		for i, p := range x.Params {
			ps[i] = p.Lexeme
		}
		return Node{"k": "fun", "name": x.Name.Lexeme, "params": ps, "c": absStmts(x.Body)}
	default:
		// expression node kinds used in statement position never reach here through the parser
		if e, ok := s.(ast.Expr); ok {
			switch e.(type) {
			case *ast.Literal, *ast.Identifier, *ast.Grouping, *ast.Unary, *ast.Binary, *ast.Logical, *ast.AssignmentStmt,
				*ast.ArrayAssignment, *ast.PropertyAssignment, *ast.Call, *ast.ArrayAccess, *ast.PropertyAccess,
				*ast.ArrayLiteral, *ast.ObjectLiteral:
				return absExpr(e)
			}
		}
		return Node{"k": "unknown", "go": fmt.Sprintf("%T", s)}
	}
}

func absProgram(ss []ast.Stmt) Node { return Node{"k": "prog", "c": absStmts(ss)} }

// ---- values observed at print time (hook "print" / "echo") -> the specification's snapshot shape

// canonNum renders a float64 as the canonical number string of Host.tla (shortest digits, mantissa e exponent).
func canonNum(f float64) string {
	switch {
	case math.IsNaN(f):
		return "NaN"
	case math.IsInf(f, 1):
		return "Inf"
	case math.IsInf(f, -1):
		return "-Inf"
	case f == 0:
		if math.Signbit(f) {
			return "-0"
		}
		return "0"
	}
	s := strconv.FormatFloat(math.Abs(f), 'e', -1, 64) // d.ddddde±xx
	mant, exp, _ := strings.Cut(s, "e")
	x, _ := strconv.Atoi(exp)
	digits := strings.Replace(mant, ".", "", 1)
	x -= len(digits) - 1
	t := strings.TrimRight(digits, "0")
	x += len(digits) - len(t)
	sign := ""
	if f < 0 {
		sign = "-"
	}
	return sign + t + "e" + strconv.Itoa(x)
}

func absValue(v interface{}, depth int, visiting map[uintptr]bool) Node {
	if depth == 0 {
		return Node{"t": "deep"}
	}
	switch x := v.(type) {
	case nil:
		return Node{"t": "nil"}
	case bool:
		return Node{"t": "bool", "b": x}
	case float64:
		return Node{"t": "num", "n": canonNum(x)}
	case int:
		return Node{"t": "num", "n": canonNum(float64(x)), "gotype": "int"}
	case int64:
		if f := float64(x); f < 9.223372036854775807e18 && int64(f) == x {
			return Node{"t": "num", "n": canonNum(f), "gotype": "int64"}
		}
		return Node{"t": "num", "n": "i:" + strconv.FormatInt(x, 10)}
	case string:
		return Node{"t": "str", "s": cpsOf(x)}
	case []rune:
		return Node{"t": "str", "s": runesToInts(x), "gotype": "runes"}
	case []interface{}:
		if len(x) > 0 {
			id := reflect.ValueOf(x).Pointer()
			if visiting[id] {
				return Node{"t": "deep"}
			}
			visiting[id] = true
			defer delete(visiting, id)
		}
		es := make([]interface{}, len(x))
		for i, e := range x {
			es[i] = absValue(e, depth-1, visiting)
		}
		return Node{"t": "arr", "e": es}
	case map[string]interface{}:
		id := reflect.ValueOf(x).Pointer()
		if visiting[id] {
			return Node{"t": "deep"}
		}
		visiting[id] = true
		defer delete(visiting, id)
		ks := make([]string, 0, len(x))
		for k := range x {
			ks = append(ks, k)
		}
		sort.Strings(ks)
		kk := make([]interface{}, len(ks))
		vs := make([]interface{}, len(ks))
		for i, k := range ks {
			kk[i] = symbolicName(k)
			vs[i] = absValue(x[k], depth-1, visiting)
		}
		return Node{"t": "obj", "ks": kk, "vs": vs}
	default:
		n := calleeName(v)
		if strings.HasPrefix(n, "user:") {
			return Node{"t": "fn", "name": symbolicName(strings.TrimPrefix(n, "user:"))}
		}
		if s, ok := nativeGoName[n]; ok {
			return Node{"t": "nat", "name": s}
		}
		return Node{"t": "other", "go": fmt.Sprintf("%T", v)}
	}
}

var spellingToSymbol = func() map[string]string {
	m := map[string]string{}
	for k, v := range builtinSpelling {
		m[v] = k
	}
	return m
}()

// symbolicName maps a source spelling back to the specification's symbolic name (built-ins), else itself.
func symbolicName(s string) string {
	if k, ok := spellingToSymbol[s]; ok {
		return k
	}
	return s
}

// ---- real AST -> the tree shape of BornoSyntax (for trace validation of programs that did not come from a family)

func specNum(bits string) Node {
	u, _ := strconv.ParseUint(bits, 16, 64)
	return Node{"t": "num", "n": canonNum(math.Float64frombits(u))}
}

func specKids(cs []interface{}) []interface{} {
	o := make([]interface{}, len(cs))
	for i, c := range cs {
		o[i] = specTree(c.(Node))
	}
	return o
}

// specTree converts the abstraction of abstract.go into the exact record shapes BornoSyntax's constructors build.
func specTree(n Node) Node {
	k, _ := n["k"].(string)
	cs, _ := n["c"].([]interface{})
	stmt := func(m Node) Node { m["ln"] = 0; return m }
	switch k {
	case "none":
		return Node{"k": "none"}
	case "lit":
		var v Node
		switch n["t"] {
		case "num":
			v = specNum(n["bits"].(string))
		case "str":
			v = Node{"t": "str", "s": n["s"]}
		case "bool":
			v = Node{"t": "bool", "b": n["b"]}
		default:
			v = Node{"t": "nil"}
		}
		return Node{"k": "lit", "v": v, "c": []interface{}{}}
	case "id":
		return Node{"k": "id", "name": symbolicName(n["name"].(string)), "c": []interface{}{}}
	case "grp", "iasg", "call", "idx", "arr":
		return Node{"k": k, "c": specKids(cs)}
	case "un", "bin":
		return Node{"k": k, "op": n["op"], "c": specKids(cs)}
	case "log":
		return Node{"k": "log", "op": n["op"], "sp": "word", "c": specKids(cs)}
	case "asg", "pasg", "prop":
		return Node{"k": k, "name": symbolicName(n["name"].(string)), "c": specKids(cs)}
	case "obj":
		keys, _ := n["keys"].([]string)
		props, _ := n["props"].(Node)
		ks := make([]interface{}, len(keys))
		vs := make([]interface{}, len(keys))
		for i, key := range keys {
			ks[i] = symbolicName(key)
			vs[i] = specTree(props[key].(Node))
		}
		return Node{"k": "obj", "keys": ks, "c": vs}
	case "expr", "print", "return", "varlist", "block", "if", "while", "for":
		return stmt(Node{"k": k, "c": specKids(cs)})
	case "var":
		return stmt(Node{"k": "var", "name": symbolicName(n["name"].(string)), "c": specKids(cs)})
	case "break", "continue":
		return stmt(Node{"k": k, "c": []interface{}{}})
	case "fun":
		ps, _ := n["params"].([]interface{})
		pp := make([]interface{}, len(ps))
		for i, p := range ps {
			pp[i] = symbolicName(p.(string))
		}
		return stmt(Node{"k": "fun", "name": symbolicName(n["name"].(string)), "params": pp, "c": specKids(cs)})
	case "prog":
		return Node{"k": "prog", "c": specKids(cs)}
	}
	return Node{"k": "unknown"}
}
