package main

import (
	"fmt"
	"strconv"
	"strings"
)

// RenderOpts control the concrete layout chosen for a token list emitted by the specification (Yield).
type RenderOpts struct {
	BanglaDigits bool              // write numeric literals with Bangla digits
	Rename       map[string]string // identifier renaming (C18d)
	Sep          string            // separator between tokens on a line (default one blank)
	OneLine      bool              // drop the line structure: the whole program on one line
}

// canonToLiteral turns a canonical number string of the specification (mantissa e exponent, see Host) into a
// Borno numeric literal: plain decimal digits, no sign, no exponent.
func canonToLiteral(c string) (string, error) {
	if c == "0" {
		return "0", nil
	}
	if strings.HasPrefix(c, "-") || strings.HasPrefix(c, "i:") || c == "NaN" || c == "Inf" {
		return "", fmt.Errorf("not a literal: %s", c)
	}
	i := strings.IndexByte(c, 'e')
	if i < 0 {
		return "", fmt.Errorf("bad canonical number %q", c)
	}
	m := c[:i]
	x, err := strconv.Atoi(c[i+1:])
	if err != nil {
		return "", err
	}
	if x >= 0 {
		return m + strings.Repeat("0", x), nil
	}
	k := -x
	if k >= len(m) {
		return "0." + strings.Repeat("0", k-len(m)) + m, nil
	}
	return m[:len(m)-k] + "." + m[len(m)-k:], nil
}

func toBanglaDigits(s string) string {
	var b strings.Builder
	for _, r := range s {
		if r >= '0' && r <= '9' {
			b.WriteRune(0x09E6 + (r - '0'))
		} else {
			b.WriteRune(r)
		}
	}
	return b.String()
}

func spellIdent(name string, o *RenderOpts) string {
	if s, ok := builtinSpelling[name]; ok {
		return s
	}
	if o != nil && o.Rename != nil {
		if s, ok := o.Rename[name]; ok {
			return s
		}
	}
	return name
}

// Render turns compact tokens ("K:if", "I:a", "N:15e-1", "S:text", "L:7", operators verbatim) into source text.
func Render(toks []string, o *RenderOpts) (string, error) {
	var b strings.Builder
	line := 1
	atStart := true
	sep := " "
	if o != nil && o.Sep != "" {
		sep = o.Sep
	}
	for _, t := range toks {
		var txt string
		switch {
		case strings.HasPrefix(t, "L:"):
			n, err := strconv.Atoi(t[2:])
			if err != nil {
				return "", err
			}
			if o != nil && o.OneLine {
				continue
			}
			// a gap of blank lines is layout: it is filled, in turn, with nothing, with line comments, or with one block
			// comment that begins on the line before and runs through the gap (line numbers must survive all three)
			if gap := n - line; gap >= 2 {
				switch (n + len(toks)) % 3 {
				case 1:
					for line < n-1 {
						b.WriteString("\n// filler")
						line++
					}
				case 2:
					if !atStart {
						b.WriteString(" ")
					}
					b.WriteString("/* filler")
					for line < n-1 {
						b.WriteString("\n *")
						line++
					}
					b.WriteString("/")
				}
			}
			for line < n {
				b.WriteByte('\n')
				line++
				atStart = true
			}
			continue
		case strings.HasPrefix(t, "K:"):
			s, ok := keywordSpelling[t[2:]]
			if !ok {
				return "", fmt.Errorf("unknown keyword token %q", t)
			}
			txt = s
		case strings.HasPrefix(t, "I:"):
			txt = spellIdent(t[2:], o)
		case strings.HasPrefix(t, "N:"):
			l, err := canonToLiteral(t[2:])
			if err != nil {
				return "", err
			}
			if o != nil && o.BanglaDigits {
				l = toBanglaDigits(l)
			}
			txt = l
		case strings.HasPrefix(t, "S:"):
			txt = "\"" + t[2:] + "\""
			line += strings.Count(t[2:], "\n")
		case strings.HasPrefix(t, "R:"): // raw text fragment
			txt = t[2:]
			line += strings.Count(txt, "\n")
		default:
			txt = t
		}
		if !atStart {
			b.WriteString(sep)
		}
		b.WriteString(txt)
		atStart = false
	}
	b.WriteByte('\n')
	return b.String(), nil
}
