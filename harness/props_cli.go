package main

import (
	"encoding/json"
	"fmt"
	"math/rand"
	"path/filepath"
	"regexp"
	"runtime"
	"strings"
	"sync"
	"time"
)

type ReplRec struct {
	Idx    int       `json:"idx"`
	Text   []int     `json:"text"`
	Status string    `json:"status"`
	Out    []OutRec  `json:"out"`
	Diags  []DiagRec `json:"diags"`
	Static struct {
		N      int  `json:"n"`
		Line   int  `json:"line"`
		LexErr bool `json:"lexerr"`
	} `json:"static"`
}

var reStaticDiag = regexp.MustCompile(`(?m)^\[line (\d+)\] Error`)
var reRuntimeDiag = regexp.MustCompile(`(?m)^(.*)\n\[line (\d+)\]$`)

// stderr of a session -> ordered list of diagnostics ("static" / runtime kind, line)
func parseStderr(s string) []DiagRec {
	var out []DiagRec
	lines := strings.Split(strings.TrimRight(s, "\n"), "\n")
	for i := 0; i < len(lines); i++ {
		l := lines[i]
		if l == "" {
			continue
		}
		if m := reStaticDiag.FindStringSubmatch(l); m != nil {
			n := 0
			fmt.Sscan(m[1], &n)
			out = append(out, DiagRec{Kind: "static", Ln: n})
			continue
		}
		if i+1 < len(lines) && strings.HasPrefix(lines[i+1], "[line ") && strings.HasSuffix(lines[i+1], "]") {
			n := 0
			fmt.Sscan(strings.TrimSuffix(strings.TrimPrefix(lines[i+1], "[line "), "]"), &n)
			out = append(out, DiagRec{Kind: classifyDiag(l), Ln: n})
			i++
			continue
		}
		out = append(out, DiagRec{Kind: "unparsed:" + clip(l, 40), Ln: -1})
	}
	return out
}

// judgeSession checks one REPL session (a sequence of pool lines) against the per-line responses of fresh sessions.
func judgeSession(prompt string, seq []*ReplRec, r *CLIRun) (string, string) {
	if r.Killed {
		return "no-termination", "the session did not end at end of input"
	}
	if strings.Contains(r.Err, "panic:") || strings.Contains(r.Err, "fatal error:") || strings.Contains(r.Err, "goroutine ") {
		return "abnormal-termination", clip(r.Err, 300)
	}
	if r.Exit != 0 {
		return fmt.Sprintf("exit:0->%d", r.Exit), "end of input must end the session with status 0"
	}
	rest := r.Out
	for i, ln := range seq {
		if !strings.HasPrefix(rest, prompt) {
			return fmt.Sprintf("prompt-missing:line%d", 0), fmt.Sprintf("before line %d: expected the prompt, got %q", i+1, clip(rest, 60))
		}
		rest = rest[len(prompt):]
		// the response to this line: everything up to the next prompt position, matched record by record
		for k := range ln.Out {
			rec := ln.Out[k : k+1]
			var seg string
			if rec[0].V.T == "str" && rec[0].T != "prompt" {
				seg = intsToString(rec[0].V.S) + "\n"
				if !strings.HasPrefix(rest, seg) {
					return "response:" + ln.Status + ":" + rec[0].T, fmt.Sprintf("line %d (%q): expected %q, got %q", i+1, intsToString(ln.Text), seg, clip(rest, 60))
				}
			} else {
				nl := strings.IndexByte(rest, '\n')
				if nl < 0 {
					return "response:" + ln.Status + ":missing", fmt.Sprintf("line %d (%q): output ends early", i+1, intsToString(ln.Text))
				}
				seg = rest[:nl+1]
				if idx, what, detail := matchOut(rec, seg, false); idx >= 0 {
					return "response:" + ln.Status + ":" + what, fmt.Sprintf("line %d (%q): %s", i+1, intsToString(ln.Text), detail)
				}
			}
			rest = rest[len(seg):]
		}
	}
	if rest != prompt {
		return "response:extra-or-missing-output", fmt.Sprintf("after the last line: expected one final prompt, got %q", clip(rest, 80))
	}
	// diagnostics, in order
	var want []DiagRec
	for _, ln := range seq {
		if ln.Status == "rejected" {
			for k := 0; k < ln.Static.N; k++ {
				want = append(want, DiagRec{Kind: "static", Ln: ln.Static.Line})
			}
		} else if ln.Status == "error" {
			want = append(want, ln.Diags[0])
		}
	}
	got := parseStderr(r.Err)
	// a rejected line produces one or more static diagnostics (how many is not prescribed); a failing line exactly
	// its first runtime diagnostic.  Consecutive rejected lines form a run that needs at least as many static entries.
	gi := 0
	for wi := 0; wi < len(want); {
		w := want[wi]
		if w.Kind == "static" {
			k := 0
			for wi < len(want) && want[wi].Kind == "static" {
				k++
				wi++
			}
			m := 0
			for gi < len(got) && got[gi].Kind == "static" {
				if got[gi].Ln != 1 {
					return "diag-line", fmt.Sprintf("expected %v, got %v", want, got)
				}
				m++
				gi++
			}
			if m < k {
				return "diag-missing:static", fmt.Sprintf("expected diagnostics %v, stderr has %v", want, got)
			}
			continue
		}
		if gi >= len(got) {
			return "diag-missing:" + kindClass(w.Kind), fmt.Sprintf("expected diagnostics %v, stderr has %v", want, got)
		}
		g := got[gi]
		if g.Kind == "static" || (g.Kind != "unclassified" && kindClass(g.Kind) != kindClass(w.Kind)) {
			return "diag-kind:" + kindClass(w.Kind) + "->" + kindClass(g.Kind), fmt.Sprintf("expected %v, got %v", want, got)
		}
		if g.Ln != w.Ln {
			return "diag-line", fmt.Sprintf("expected %v, got %v", want, got)
		}
		gi++
		wi++
	}
	if gi < len(got) {
		return "diag-unexpected", fmt.Sprintf("expected diagnostics %v, stderr has %v", want, got)
	}
	return "", ""
}

func checkC20(c *Ctx) {
	out := filepath.Join(c.Work, "repl.ndjson")
	res := c.runTLC(TLCJob{Module: "FamRepl", Cfg: "FamRepl.cfg", OutFile: out, Timeout: 20 * time.Minute})
	if res.Err != "" {
		return
	}
	var pool []*ReplRec
	forEachLine(out, func(line []byte) error {
		var rec ReplRec
		if err := json.Unmarshal(line, &rec); err != nil {
			c.infra("bad repl record: %v", err)
			return nil
		}
		if rec.Status == "unspec" || rec.Status == "fuel" {
			return nil
		}
		pool = append(pool, &rec)
		return nil
	})
	// the prompt is learned from an empty session, not assumed
	e := c.runCLI(nil, "", 10*time.Second)
	prompt := e.Out
	if e.Exit != 0 || prompt == "" || e.Err != "" {
		c.violation("C20|repl|empty-session", "", map[string]interface{}{"mode": "repl", "detail": fmt.Sprintf("empty session: exit %d stdout %q stderr %q", e.Exit, e.Out, e.Err)})
		return
	}
	type sess struct{ idx []int }
	sessions := make(chan sess, 256)
	maxExh, nRand, randLen := 2, 3000, 6
	if c.Tier == "thorough" {
		maxExh, nRand, randLen = 3, 30000, 50
	}
	go func() {
		n := len(pool)
		var rec func(prefix []int, depth int)
		rec = func(prefix []int, depth int) {
			if len(prefix) > 0 {
				sessions <- sess{append([]int(nil), prefix...)}
			}
			if depth == maxExh {
				return
			}
			for i := 0; i < n; i++ {
				rec(append(prefix, i), depth+1)
			}
		}
		rec(nil, 0)
		rng := rand.New(rand.NewSource(int64(c.Seed)))
		for k := 0; k < nRand; k++ {
			l := maxExh + 1 + rng.Intn(randLen)
			s := make([]int, l)
			for i := range s {
				s[i] = rng.Intn(n)
			}
			sessions <- sess{s}
		}
		close(sessions)
	}()
	var wg sync.WaitGroup
	var mu sync.Mutex
	var n, nontrivial int64
	for w := 0; w < runtime.NumCPU(); w++ {
		wg.Add(1)
		go func() {
			defer wg.Done()
			for s := range sessions {
				seq := make([]*ReplRec, len(s.idx))
				var in strings.Builder
				failed := 0
				for i, k := range s.idx {
					seq[i] = pool[k]
					in.WriteString(intsToString(pool[k].Text))
					in.WriteByte('\n')
					if pool[k].Status != "done" {
						failed++
					}
				}
				r := c.runCLI(nil, in.String(), 20*time.Second)
				what, detail := judgeSession(prompt, seq, &r)
				mu.Lock()
				n++
				if failed > 0 && failed < len(seq) {
					nontrivial++
				}
				if n%5000 == 1 {
					c.sample(map[string]interface{}{"session": in.String(), "lines": len(seq), "failing_lines": failed})
				}
				if what != "" {
					// class: the statuses of the last two lines (the failing line and what preceded it)
					cl := seq[len(seq)-1].Status
					if len(seq) > 1 {
						cl = seq[len(seq)-2].Status + ">" + cl
					}
					c.violation("C20|repl|"+cl+"|"+what, in.String(), map[string]interface{}{"mode": "repl", "stdin": in.String(), "detail": detail,
						"observed": map[string]interface{}{"out": r.Out, "err": r.Err, "exit": r.Exit}})
				}
				mu.Unlock()
			}
		}()
	}
	wg.Wait()
	c.addInt("traces_validated_against_impl", n)
	c.addInt("evaluations", n)
	c.addInt("distinct_nontrivial", nontrivial)
	c.cov("pool_lines", len(pool))
	c.cov("exhaustive", true)
	c.cov("rule", fmt.Sprintf("every sequence of <= %d lines over the pool of %d representative REPL lines of FamRepl (prints, bare expressions of every value kind, declarations, nested expression statements, lexical errors, unterminated string / comment, syntax errors, runtime errors of several kinds, stray signals, empty and comment-only lines, assignment to a built-in name), plus %d seeded random sessions of up to %d lines; each line's expected response is that of a fresh session as computed by the specification pipeline (lexer, recogniser, abstract machine in interactive mode); non-trivial = a session mixing failing and succeeding lines", maxExh, len(pool), nRand, maxExh+randLen))
	c.Ev.Assumptions = []string{"stdout and stderr of the REPL are separate streams: responses are matched on stdout between prompts, diagnostics on stderr in order", "the prompt string is learned from an empty session"}
}

func init() {
	checks["C20"] = checkC20
}
