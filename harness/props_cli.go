package main

import (
	"encoding/json"
	"fmt"
	"math/rand"
	"os"
	"path/filepath"
	"regexp"
	"runtime"
	"strings"
	"sync"
	"time"
)

type ReplRec struct {
	Idx    int       `json:"idx"`
	Text   []int     `json:"text"`
	Status string    `json:"status"`
	Out    []OutRec  `json:"out"`
	Diags  []DiagRec `json:"diags"`
	Static struct {
		N      int  `json:"n"`
		Line   int  `json:"line"`
		LexErr bool `json:"lexerr"`
	} `json:"static"`
}

var reStaticDiag = regexp.MustCompile(`(?m)^\[line (\d+)\] Error`)
var reRuntimeDiag = regexp.MustCompile(`(?m)^(.*)\n\[line (\d+)\]$`)

// stderr of a session -> ordered list of diagnostics ("static" / runtime kind, line)
func parseStderr(s string) []DiagRec {
	var out []DiagRec
	lines := strings.Split(strings.TrimRight(s, "\n"), "\n")
	for i := 0; i < len(lines); i++ {
		l := lines[i]
		if l == "" {
			continue
		}
		if m := reStaticDiag.FindStringSubmatch(l); m != nil {
			n := 0
			fmt.Sscan(m[1], &n)
			out = append(out, DiagRec{Kind: "static", Ln: n})
			continue
		}
		if i+1 < len(lines) && strings.HasPrefix(lines[i+1], "[line ") && strings.HasSuffix(lines[i+1], "]") {
			n := 0
			fmt.Sscan(strings.TrimSuffix(strings.TrimPrefix(lines[i+1], "[line "), "]"), &n)
			out = append(out, DiagRec{Kind: classifyDiag(l), Ln: n})
			i++
			continue
		}
		out = append(out, DiagRec{Kind: "unparsed:" + clip(l, 40), Ln: -1})
	}
	return out
}

// judgeSession checks one REPL session (a sequence of pool lines) against the per-line responses of fresh sessions.
func judgeSession(prompt string, seq []*ReplRec, r *CLIRun) (string, string) {
	if r.Killed {
		return "no-termination", "the session did not end at end of input"
	}
	if strings.Contains(r.Err, "panic:") || strings.Contains(r.Err, "fatal error:") || strings.Contains(r.Err, "goroutine ") {
		return "abnormal-termination", clip(r.Err, 300)
	}
	if r.Exit != 0 {
		return fmt.Sprintf("exit:0->%d", r.Exit), "end of input must end the session with status 0"
	}
	rest := r.Out
	for i, ln := range seq {
		if !strings.HasPrefix(rest, prompt) {
			return fmt.Sprintf("prompt-missing:line%d", 0), fmt.Sprintf("before line %d: expected the prompt, got %q", i+1, clip(rest, 60))
		}
		rest = rest[len(prompt):]
		// the response to this line: everything up to the next prompt position, matched record by record
		for k := range ln.Out {
			rec := ln.Out[k : k+1]
			var seg string
			if rec[0].V.T == "str" && rec[0].T != "prompt" {
				seg = intsToString(rec[0].V.S) + "\n"
				if !strings.HasPrefix(rest, seg) {
					return "response:" + ln.Status + ":" + rec[0].T, fmt.Sprintf("line %d (%q): expected %q, got %q", i+1, intsToString(ln.Text), seg, clip(rest, 60))
				}
			} else {
				nl := strings.IndexByte(rest, '\n')
				if nl < 0 {
					return "response:" + ln.Status + ":missing", fmt.Sprintf("line %d (%q): output ends early", i+1, intsToString(ln.Text))
				}
				seg = rest[:nl+1]
				if idx, what, detail := matchOut(rec, seg, false); idx >= 0 {
					return "response:" + ln.Status + ":" + what, fmt.Sprintf("line %d (%q): %s", i+1, intsToString(ln.Text), detail)
				}
			}
			rest = rest[len(seg):]
		}
	}
	if rest != prompt {
		return "response:extra-or-missing-output", fmt.Sprintf("after the last line: expected one final prompt, got %q", clip(rest, 80))
	}
	// diagnostics, in order
	var want []DiagRec
	for _, ln := range seq {
		if ln.Status == "rejected" {
			for k := 0; k < ln.Static.N; k++ {
				want = append(want, DiagRec{Kind: "static", Ln: ln.Static.Line})
			}
		} else if ln.Status == "error" {
			want = append(want, ln.Diags[0])
		}
	}
	got := parseStderr(r.Err)
	// a rejected line produces one or more static diagnostics (how many is not prescribed); a failing line exactly
	// its first runtime diagnostic.  Consecutive rejected lines form a run that needs at least as many static entries.
	gi := 0
	for wi := 0; wi < len(want); {
		w := want[wi]
		if w.Kind == "static" {
			k := 0
			for wi < len(want) && want[wi].Kind == "static" {
				k++
				wi++
			}
			m := 0
			for gi < len(got) && got[gi].Kind == "static" {
				if got[gi].Ln != 1 {
					return "diag-line", fmt.Sprintf("expected %v, got %v", want, got)
				}
				m++
				gi++
			}
			if m < k {
				return "diag-missing:static", fmt.Sprintf("expected diagnostics %v, stderr has %v", want, got)
			}
			continue
		}
		if gi >= len(got) {
			return "diag-missing:" + kindClass(w.Kind), fmt.Sprintf("expected diagnostics %v, stderr has %v", want, got)
		}
		g := got[gi]
		if g.Kind == "static" || (g.Kind != "unclassified" && kindClass(g.Kind) != kindClass(w.Kind)) {
			return "diag-kind:" + kindClass(w.Kind) + "->" + kindClass(g.Kind), fmt.Sprintf("expected %v, got %v", want, got)
		}
		if g.Ln != w.Ln {
			return "diag-line", fmt.Sprintf("expected %v, got %v", want, got)
		}
		gi++
		wi++
	}
	if gi < len(got) {
		return "diag-unexpected", fmt.Sprintf("expected diagnostics %v, stderr has %v", want, got)
	}
	return "", ""
}

func checkC20(c *Ctx) {
	out := filepath.Join(c.Work, "repl.ndjson")
	res := c.runTLC(TLCJob{Module: "FamRepl", Cfg: map[bool]string{false: "FamRepl.cfg", true: "FamRepl_thorough.cfg"}[c.Tier == "thorough"], OutFile: out, Timeout: 20 * time.Minute})
	if res.Err != "" {
		return
	}
	var pool []*ReplRec
	forEachLine(out, func(line []byte) error {
		var rec ReplRec
		if err := json.Unmarshal(line, &rec); err != nil {
			c.infra("bad repl record: %v", err)
			return nil
		}
		if rec.Status == "unspec" || rec.Status == "fuel" {
			return nil
		}
		pool = append(pool, &rec)
		return nil
	})
	// the prompt is learned from an empty session, not assumed
	e := c.runCLI(nil, "", 10*time.Second)
	prompt := e.Out
	if e.Exit != 0 || prompt == "" || e.Err != "" {
		c.violation("C20|repl|empty-session", "", map[string]interface{}{"mode": "repl", "detail": fmt.Sprintf("empty session: exit %d stdout %q stderr %q", e.Exit, e.Out, e.Err)})
		return
	}
	type sess struct{ idx []int }
	sessions := make(chan sess, 256)
	maxExh, nRand, randLen := 2, 3000, 6
	if c.Tier == "thorough" {
		maxExh, nRand, randLen = 3, 30000, 50
	}
	go func() {
		n := len(pool)
		var rec func(prefix []int, depth int)
		rec = func(prefix []int, depth int) {
			if len(prefix) > 0 {
				sessions <- sess{append([]int(nil), prefix...)}
			}
			if depth == maxExh {
				return
			}
			for i := 0; i < n; i++ {
				rec(append(prefix, i), depth+1)
			}
		}
		rec(nil, 0)
		// a failing line repeated k times, then a line that must answer as in a fresh session: whatever a failed line leaves
		// behind must not add up either
		var failing, answering []int
		for i, p := range pool {
			if p.Status != "done" {
				failing = append(failing, i)
			} else if len(p.Out) > 0 && len(answering) < 8 && (i+c.Seed)%3 == 0 {
				answering = append(answering, i)
			}
		}
		for _, f := range failing {
			for _, k := range []int{2, 5, 20, 80} {
				for _, v := range answering {
					s := make([]int, 0, k+2)
					for j := 0; j < k; j++ {
						s = append(s, f)
					}
					sessions <- sess{append(s, v, f)}
				}
			}
		}
		rng := rand.New(rand.NewSource(int64(c.Seed)))
		for k := 0; k < nRand; k++ {
			l := maxExh + 1 + rng.Intn(randLen)
			s := make([]int, l)
			for i := range s {
				s[i] = rng.Intn(n)
			}
			sessions <- sess{s}
		}
		close(sessions)
	}()
	var wg sync.WaitGroup
	var mu sync.Mutex
	var n, nontrivial, hung int64
	for w := 0; w < runtime.NumCPU(); w++ {
		wg.Add(1)
		go func() {
			defer wg.Done()
			for s := range sessions {
				mu.Lock()
				stop := hung >= 48
				mu.Unlock()
				if stop {
					continue // the interpreter hangs on session after session: what was seen is reported, the rest would only burn time
				}
				seq := make([]*ReplRec, len(s.idx))
				var in strings.Builder
				failed := 0
				for i, k := range s.idx {
					seq[i] = pool[k]
					in.WriteString(intsToString(pool[k].Text))
					in.WriteByte('\n')
					if pool[k].Status != "done" {
						failed++
					}
				}
				r := c.runCLI(nil, in.String(), 20*time.Second)
				what, detail := judgeSession(prompt, seq, &r)
				mu.Lock()
				n++
				if r.Killed {
					hung++
				}
				if failed > 0 && failed < len(seq) {
					nontrivial++
				}
				if n%5000 == 1 {
					c.sample(map[string]interface{}{"session": in.String(), "lines": len(seq), "failing_lines": failed})
				}
				if what != "" {
					// class: the statuses of the last two lines (the failing line and what preceded it)
					cl := seq[len(seq)-1].Status
					if len(seq) > 1 {
						cl = seq[len(seq)-2].Status + ">" + cl
					}
					c.violation("C20|repl|"+cl+"|"+what, in.String(), map[string]interface{}{"mode": "repl", "stdin": in.String(), "detail": detail,
						"observed": map[string]interface{}{"out": r.Out, "err": r.Err, "exit": r.Exit}})
				}
				mu.Unlock()
			}
		}()
	}
	wg.Wait()
	c.addInt("traces_validated_against_impl", n)
	c.addInt("evaluations", n)
	c.addInt("distinct_nontrivial", nontrivial)
	c.cov("pool_lines", len(pool))
	if hung >= 48 {
		c.cov("aborted", fmt.Sprintf("%d sessions did not end within their time limit; the remaining sessions were not run", hung))
	}
	c.cov("exhaustive", hung < 48)
	c.cov("rule", fmt.Sprintf("every sequence of <= %d lines over the pool of %d representative REPL lines of FamRepl (prints, bare expressions of every value kind, declarations, nested expression statements, lexical errors, unterminated string / comment, syntax errors, runtime errors of several kinds, stray signals, empty and comment-only lines, assignment to a built-in name), each failing line repeated 2, 5, 20 and 80 times and followed by lines that answer; plus %d seeded random sessions of up to %d lines; each line's expected response is that of a fresh session as computed by the specification pipeline (lexer, recogniser, abstract machine in interactive mode); non-trivial = a session mixing failing and succeeding lines", maxExh, len(pool), nRand, maxExh+randLen))
	c.Ev.Assumptions = []string{"stdout and stderr of the REPL are separate streams: responses are matched on stdout between prompts, diagnostics on stderr in order", "the prompt string is learned from an empty session"}
}

func init() {
	checks["C20"] = checkC20
}

type ProcRec struct {
	NArgs  int    `json:"nargs"`
	ExtOK  bool   `json:"extOK"`
	FileOK bool   `json:"fileOK"`
	Class  string `json:"class"`
	Exit   int    `json:"exit"`
	Ran    bool   `json:"ran"`
	Msg    bool   `json:"msg"`
	Lines  int    `json:"lines"`
}

// classProgram builds a multi-line program of the given outcome class with the fault at line `at` (1..3 of 4 statements).
var classFaults = map[string][]string{
	"lexerr": {"@", "\"abc", "/* open", "1 $ 2;", "/*/", "/* a * / b **"},
	"synerr": {"PRINT ;", "{", "1 +", ")", "VAR 1 = 2;", "{ PRINT 1;"},
	"rterr":  {"PRINT 1 / 0;", "zz;", "BREAK;", "nil();"},
	"clean":  {""},
}

func classProgram(class string, at int, flavour ...int) (src string, wantOut string) {
	pr := keywordSpelling["print"]
	lines := []string{pr + " \"one\";", pr + " \"two\";", pr + " \"three\";"}
	fl := 0
	if len(flavour) > 0 {
		fl = flavour[0]
	}
	if class == "clean" {
		// programs with nothing to run are clean too: exit 0, no output
		switch fl % 6 {
		case 1:
			return "", ""
		case 2:
			return " \n\t\n  ", ""
		case 3:
			return "// nothing here\n", ""
		case 4:
			return "/* nothing\n here */", ""
		case 5:
			return strings.Join(lines, "\n"), "one\ntwo\nthree\n"
		}
	}
	fs := classFaults[class]
	fault := strings.NewReplacer("PRINT", pr, "VAR", keywordSpelling["var"], "BREAK", keywordSpelling["break"]).Replace(fs[fl%len(fs)])
	var out []string
	var src2 []string
	for i, l := range lines {
		if class != "clean" && i+1 == at {
			src2 = append(src2, fault)
		}
		src2 = append(src2, l)
	}
	if class != "clean" && at > len(lines) {
		src2 = append(src2, fault)
	}
	switch class {
	case "clean":
		out = []string{"one", "two", "three"}
	case "rterr":
		out = []string{"one", "two", "three"}[:min(at-1, 3)]
	}
	w := strings.Join(out, "\n")
	if len(out) > 0 {
		w += "\n"
	}
	return strings.Join(src2, "\n") + "\n", w
}

func min(a, b int) int {
	if a < b {
		return a
	}
	return b
}

func checkC19(c *Ctx) {
	// (1) process level: BornoProc explored by TLC, each abstract run instantiated with concrete command lines
	pout := filepath.Join(c.Work, "proc.ndjson")
	if res := c.runTLC(TLCJob{Module: "FamProc", Cfg: "FamProc.cfg", OutFile: pout, Timeout: 10 * time.Minute}); res.Err == "" {
		seen := map[string]bool{}
		var n int64
		dir := filepath.Join(c.Work, "cli")
		os.MkdirAll(filepath.Join(dir, "dir.bn"), 0755)
		os.MkdirAll(filepath.Join(dir, "sub"), 0755)
		runnable, _ := classProgram("clean", 0)
		for _, name := range []string{"a", "a.txt", "a.bn.txt", "a.BN", "a.bnx", "a.b", "bn", "a.bn ", "ok.bn"} {
			os.WriteFile(filepath.Join(dir, name), []byte(runnable), 0644)
		}
		forEachLine(pout, func(line []byte) error {
			var rec ProcRec
			if json.Unmarshal(line, &rec) != nil {
				return nil
			}
			key := fmt.Sprintf("%d|%v|%v|%s", rec.NArgs, rec.ExtOK, rec.FileOK, rec.Class)
			if rec.NArgs != 1 || !rec.ExtOK || !rec.FileOK {
				key = fmt.Sprintf("%d|%v|%v", rec.NArgs, rec.ExtOK, rec.FileOK && rec.ExtOK)
			}
			if seen[key] {
				return nil
			}
			seen[key] = true
			type inv struct {
				args  []string
				out   string
				stdin string
			}
			var invs []inv
			switch {
			case rec.NArgs == 0:
				invs = []inv{{nil, "", ""}}
			case rec.NArgs >= 2:
				invs = []inv{{[]string{"ok.bn", "ok.bn"}, "", ""}, {[]string{"a", "b", "c"}[:rec.NArgs], "", ""}, {[]string{"ok.bn", "--help", "x"}[:rec.NArgs], "", ""}}
			case !rec.ExtOK:
				for _, nm := range []string{"a", "a.txt", "a.bn.txt", "a.BN", "a.bnx", "a.b", "bn", "a.bn ", "missing", "dir.bn/"} {
					invs = append(invs, inv{[]string{nm}, "", ""})
				}
			case !rec.FileOK:
				invs = []inv{{[]string{"missing.bn"}, "", ""}, {[]string{"dir.bn"}, "", ""}, {[]string{"ok.bn/x.bn"}, "", ""}, {[]string{"sub/none.bn"}, "", ""}}
			default:
				for at := 1; at <= 4; at++ {
					for fl, nm := range []string{"p.bn", ".bn", "sub/q.bn", "sp ace.bn", "x.y.bn", "p2.bn"} {
						src, want := classProgram(rec.Class, at, fl)
						if strings.Contains(src, "{") && at < 4 {
							continue // an unclosed block swallows the following lines: only as the last line
						}
						os.WriteFile(filepath.Join(dir, nm), []byte(src), 0644)
						invs = append(invs, inv{[]string{nm}, want, "ignored input\n"})
						cmd := c.runCLIIn(dir, []string{nm}, "ignored input\n", 10*time.Second)
						n++
						c.judgeProc(&rec, []string{nm}, want, &cmd, src)
					}
					if rec.Class == "clean" {
						break
					}
				}
				return nil
			}
			for _, iv := range invs {
				cmd := c.runCLIIn(dir, iv.args, iv.stdin, 10*time.Second)
				n++
				c.judgeProc(&rec, iv.args, iv.out, &cmd, "")
			}
			return nil
		})
		c.addInt("traces_validated_against_impl", n)
		c.addInt("evaluations", n)
		c.addInt("distinct_nontrivial", int64(len(seen)))
		c.cov("abstract_runs", len(seen))
	}
	// (2) streams and input: FamInput through the executable, with and without a final newline
	o := &SemOpts{BothStdinEndings: true}
	iout := filepath.Join(c.Work, "input.ndjson")
	if res := c.runTLC(TLCJob{Module: "FamInput", Cfg: "FamInput.cfg", OutFile: iout, Timeout: 20 * time.Minute}); res.Err == "" {
		st := c.replaySemFile(iout, o, 50)
		c.recordSem("FamInput", st)
		c.replaySemCLI(iout, o, 1, 10*time.Second)
	}
	// (3) the fault families through the executable: exit 70 / 0 and stream separation for every fault kind and position
	fout := filepath.Join(c.Work, "faults.ndjson")
	if res := c.runTLC(TLCJob{Module: "FamFaults", Cfg: "FamFaults_quick.cfg", OutFile: fout, Timeout: 20 * time.Minute}); res.Err == "" {
		every := 4
		if c.Tier == "thorough" {
			every = 1
		}
		c.replaySemCLI(fout, &SemOpts{}, every, 10*time.Second)
	}
	c.cov("exhaustive", true)
	c.cov("rule", "BornoProc (arguments, extension, file, outcome class, flags, exit status; REPL loop) explored completely by TLC and checked as an inductive invariant by Apalache; every terminal state instantiated with concrete command lines (0..3 arguments, 10 names without a .bn extension, missing file / directory / path through a file, programs of each outcome class with the fault at the first, a middle, the last line and after it, under 6 file names; clean programs include the empty, the blank-only and the comment-only text, lexical faults include comment openers that look closed); FamInput: 0..5 input calls (with and without prompt) x 0..4 input lines with surrounding blanks x clean / failing programs, each through the executable with and without a final newline; FamFaults sample for exit 70 and stream separation")
	c.Ev.Assumptions = []string{"the checks run as root, so an unreadable file is produced by a missing file, a directory and a path through a non-directory", "the usage and extension messages of exit status 64 may be written to either stream"}
}

func (c *Ctx) runCLIIn(dir string, args []string, stdin string, timeout time.Duration) CLIRun {
	old := c.Work
	c.Work = dir
	defer func() { c.Work = old }()
	return c.runCLI(args, stdin, timeout)
}

func (c *Ctx) judgeProc(rec *ProcRec, args []string, wantOut string, r *CLIRun, src string) {
	what, detail := "", ""
	if len(args) > 0 && (args[0] == "p.bn" || args[0] == "a.BN" || len(args) == 3) {
		c.sample(map[string]interface{}{"argv": args, "program": src, "expected_exit": rec.Exit, "expected_stdout": wantOut, "class": rec.Class})
	}
	switch {
	case r.Killed:
		what = "no-termination"
	case strings.Contains(r.Err, "panic:") || strings.Contains(r.Err, "goroutine "):
		what, detail = "abnormal-termination", clip(r.Err, 200)
	case rec.Exit == 1 && r.Exit == 0, rec.Exit != 1 && r.Exit != rec.Exit:
		what, detail = fmt.Sprintf("exit:%d->%d", rec.Exit, r.Exit), fmt.Sprintf("stdout %q stderr %q", clip(r.Out, 80), clip(r.Err, 80))
	case rec.NArgs == 0:
		if r.Err != "" {
			what, detail = "stderr-in-empty-session", clip(r.Err, 100)
		}
	case rec.Msg:
		if r.Out == "" && r.Err == "" {
			what = "no-message"
		} else if strings.Contains(r.Out, "one") {
			what, detail = "program-executed", clip(r.Out, 100)
		}
	default:
		if r.Out != wantOut {
			what, detail = "stdout", fmt.Sprintf("stdout %q, expected %q", clip(r.Out, 100), wantOut)
		} else if (rec.Exit == 0) != (r.Err == "") {
			what, detail = "stderr", fmt.Sprintf("exit %d with stderr %q", r.Exit, clip(r.Err, 100))
		} else if rec.Exit != 0 && !strings.Contains(r.Err, "[line ") {
			what, detail = "no-line-in-diagnostic", clip(r.Err, 100)
		}
	}
	if what != "" {
		cls := fmt.Sprintf("args%d", rec.NArgs)
		if rec.NArgs == 1 {
			switch {
			case !rec.ExtOK:
				cls = "bad-extension"
			case !rec.FileOK:
				cls = "unreadable"
			default:
				cls = rec.Class
			}
		}
		c.violation("C19|proc|"+cls+"|"+what, strings.Join(args, " "), map[string]interface{}{"mode": "cli", "args": args, "src": src, "expected": rec, "detail": detail,
			"observed": map[string]interface{}{"out": r.Out, "err": r.Err, "exit": r.Exit}})
	}
}

func init() {
	checks["C19"] = checkC19
}
