package main

import (
	"encoding/json"
	"fmt"
	"os"
	"path/filepath"
	"regexp"
	"runtime"
	"sort"
	"strconv"
	"strings"
	"sync"
	"time"
)

// SemRec is one terminal state of the abstract machine emitted by a program family:
// the program (as tokens), its input, and the observable behaviour the specification prescribes.
type SemRec struct {
	Fam    string    `json:"fam"`
	Cls    string    `json:"cls"` // coarse class of the case (used in violation signatures)
	Key    string    `json:"key"` // identity of the case
	Pid    int       `json:"pid"`
	Toks   []string  `json:"toks"`
	Full   []string `json:"full"`
	Stdin  [][]int   `json:"stdin"`
	Repl   bool      `json:"repl"`
	Status string    `json:"status"`
	Why    string    `json:"why"`
	Out    []OutRec  `json:"out"`
	Diags  []DiagRec `json:"diags"`
	Natlog []NatRec  `json:"natlog"`
	Steps  int       `json:"steps"`
	Tree   json.RawMessage `json:"tree,omitempty"`
}

var nativeGoName = map[string]string{
	"interpreter.NativeClockFn": "clock", "interpreter.NativeLenFn": "len", "interpreter.NativeAppendFn": "push",
	"interpreter.NativeRemoveFn": "remove", "interpreter.NativeDeleteFn": "delkey", "interpreter.NativeKeysFn": "keys",
	"interpreter.NativeValuesFn": "values", "interpreter.NativeAbsFn": "abs", "interpreter.NativeSqrtFn": "sqrt",
	"interpreter.NativePowFn": "pow", "interpreter.NativeSinFn": "sin", "interpreter.NativeCosFn": "cos",
	"interpreter.NativeTanFn": "tan", "interpreter.NativeMinFn": "min", "interpreter.NativeMaxFn": "max",
	"interpreter.NativeRoundFn": "round", "interpreter.NativeInputFn": "input",
}

type SemOpts struct {
	Strict     bool // C15 clauses on printed numbers
	IgnoreOut  bool // only the outcome class matters (C07)
	SkipNatlog bool
	SoftKinds  bool                           // (internal) the type-error alternative of a soft cell: operand / index / call-misuse all fit
	OnSoft     func(rec *SemRec, choice string) // called with "coerced" or "rejected" for every soft record that is explained
	IgnoreLines bool // C18: layout changes move line numbers; only the kind of the first diagnostic is compared
	BothStdinEndings bool // C19: run every case with and without a newline after the last input line
	RunUnspec  bool // also run programs the specification stops judging (status unspec): only crash-freedom is checked
	SpliceMeta bool // FamPrint: records 1..3 splice the value of record 0 into strings; they must show the text print showed
	Render     *RenderOpts
}

func stdinText(lines [][]int) string {
	var b strings.Builder
	for _, l := range lines {
		b.WriteString(intsToString(l))
		b.WriteByte('\n')
	}
	return b.String()
}

func runtimeDiags(r *Result) []Event {
	var o []Event
	for _, e := range r.Events {
		if e.E == "diag" && e.Kind == "runtime" {
			o = append(o, e)
		}
	}
	return o
}

// expectedOut is rec.Out, except for the splice records of FamPrint (see SpliceMeta).
func expectedOut(rec *SemRec, actual string, o *SemOpts) []OutRec {
	exp := rec.Out
	if o != nil && o.SpliceMeta && strings.HasPrefix(rec.Cls, "num") && len(exp) >= 4 && exp[0].V.T == "num" {
		// "the text + splices in is character for character what print shows": compare with the observed first line
		if nl := strings.IndexByte(actual, '\n'); nl >= 0 {
			l0 := actual[:nl]
			exp = append([]OutRec(nil), rec.Out...)
			exp[1].V.S, exp[2].V.S, exp[3].V.S = cpsOf(l0), cpsOf(l0), cpsOf("<"+l0+">")
		}
	}
	return exp
}

// softAlternative: a record whose run used a numeric-looking string as a number ("soft:<line>:<outlen>") also allows the
// other reading of that two-valued cell - a type error exactly there, with the output up to that point.
func softAlternative(rec *SemRec) *SemRec {
	var ln, n int
	if _, err := fmt.Sscanf(rec.Why, "soft:%d:%d", &ln, &n); err != nil || n > len(rec.Out) {
		return nil
	}
	r2 := *rec
	r2.Status = "error"
	r2.Diags = []DiagRec{{Kind: "operand", Ln: ln}}
	r2.Out = rec.Out[:n]
	return &r2
}

// compareSem returns ("", "") if the observed behaviour is the prescribed one, otherwise a class and a detail.
func compareSem(rec *SemRec, r *Result, o *SemOpts) (string, string) {
	what, detail := compareSemCore(rec, r, o)
	if !strings.HasPrefix(rec.Why, "soft:") || o.IgnoreOut {
		return what, detail
	}
	choice := "coerced"
	if what != "" {
		alt := softAlternative(rec)
		if alt == nil {
			return what, detail
		}
		o2 := *o
		o2.SkipNatlog, o2.SoftKinds = true, true
		if w2, _ := compareSemCore(alt, r, &o2); w2 != "" {
			return "soft:" + what, detail + " (a numeric-looking string was used as a number: neither the coerced continuation nor a type error at that point explains the run)"
		}
		choice = "rejected"
	}
	if o.OnSoft != nil {
		o.OnSoft(rec, choice)
	}
	return "", ""
}

func compareSemCore(rec *SemRec, r *Result, o *SemOpts) (string, string) {
	if r.Crash != "" {
		if strings.HasPrefix(r.Crash, "hang") {
			return "hang", firstLine(r.Crash)
		}
		c := "crash"
		if strings.Contains(r.Crash, "stack overflow") || strings.Contains(r.Crash, "goroutine stack exceeds") {
			c = "crash:stack-overflow"
		}
		return c, clip(r.Crash, 400)
	}
	if r.Panic != "" {
		return "panic", clip(r.Panic, 300)
	}
	if sd := staticDiagLines(r); len(sd) > 0 || r.HadErr {
		return "rejected-by-front-end", fmt.Sprintf("static diagnostics at lines %v for a program the specification generated", sd)
	}
	if r.Fuel {
		return "no-termination", fmt.Sprintf("did not finish within %d evaluation steps (the specification needs %d machine steps)", r.Steps, rec.Steps)
	}
	rd := runtimeDiags(r)
	if rec.Status == "unspec" {
		return "", "" // only crash-freedom and termination are judged
	}
	if o.IgnoreOut {
		return "", "" // C07: ends normally or with a reported error; which of the two is the other properties' business
	}
	// diagnostics first: they explain most output differences
	if rec.Status == "done" && len(rd) > 0 {
		return "diag-unexpected:" + kindClass(classifyDiag(rd[0].Msg)), fmt.Sprintf("unexpected diagnostic %q [line %d]", rd[0].Msg, rd[0].Line)
	}
	if rec.Status == "error" {
		want := rec.Diags[0]
		if len(rd) == 0 {
			return "diag-missing:" + want.Kind, fmt.Sprintf("expected a %s diagnostic at line %d, none was written", want.Kind, want.Ln)
		}
		got := classifyDiag(rd[0].Msg)
		softOK := o.SoftKinds && (kindClass(got) == "operand" || kindClass(got) == "index" || kindClass(got) == "call-misuse")
		if got != "unclassified" && kindClass(got) != kindClass(want.Kind) && !softOK {
			return "diag-kind:" + kindClass(want.Kind) + "->" + kindClass(got), fmt.Sprintf("expected %s at line %d, got %q [line %d]", want.Kind, want.Ln, rd[0].Msg, rd[0].Line)
		}
		if rd[0].Line != want.Ln && !o.IgnoreLines {
			return "diag-line:" + kindClass(want.Kind), fmt.Sprintf("expected line %d, got %q [line %d]", want.Ln, rd[0].Msg, rd[0].Line)
		}
		// nothing observable after the first diagnostic (C06)
		first := rd[0]
		seen := false
		for i := range r.Events {
			e := &r.Events[i]
			if !seen {
				seen = e.E == "diag" && e.Kind == "runtime"
				continue
			}
			if e.E == "call" {
				if n, ok := nativeGoName[e.Name]; ok {
					return "after-error:call:" + n, fmt.Sprintf("built-in %s invoked after the first diagnostic", n)
				}
			}
		}
		if r.StdinPos > first.In {
			return "after-error:input", "input was consumed after the first diagnostic"
		}
		if int64(len(r.Out)) > first.Off {
			return "after-error:output", fmt.Sprintf("%q written to stdout after the first diagnostic", clip(r.Out[first.Off:], 60))
		}
	}
	if idx, what, detail := matchOut(expectedOut(rec, r.Out, o), r.Out, o.Strict); idx >= 0 {
		return "out:" + what, fmt.Sprintf("output record %d: %s", idx, detail)
	}
	if (rec.Status == "error") != r.HadRT {
		return "flag", fmt.Sprintf("status %s but HadRuntimeError=%v", rec.Status, r.HadRT)
	}
	if !o.SkipNatlog {
		var got []string
		for _, e := range r.Events {
			if e.E == "call" {
				if n, ok := nativeGoName[e.Name]; ok {
					got = append(got, n)
				}
			}
		}
		var want []string
		for _, n := range rec.Natlog {
			want = append(want, n.Name)
		}
		if strings.Join(got, ",") != strings.Join(want, ",") {
			return "natlog", fmt.Sprintf("built-in invocations %v, expected %v", got, want)
		}
	}
	return "", ""
}

type SemStats struct {
	N, Nontrivial, SkippedFuel, SkippedUnspec, Unclassified int64
	ByStatus                                              map[string]int64
	Classes                                               map[string]int64
}

// replaySemFile replays every record of an emitted family file into the real interpreter (in-process).
func (c *Ctx) replaySemFile(path string, o *SemOpts, sampleEvery int64) *SemStats {
	st := &SemStats{ByStatus: map[string]int64{}, Classes: map[string]int64{}}
	cases := make(chan *Case, 512)
	recs := map[int]*SemRec{}
	go func() {
		id := 0
		forEachLine(path, func(line []byte) error {
			var rec SemRec
			if err := json.Unmarshal(line, &rec); err != nil {
				c.infra("bad record in %s: %v", path, err)
				return nil
			}
			c.Pool.mu.Lock()
			st.ByStatus[rec.Status]++
			c.Pool.mu.Unlock()
			if rec.Status == "fuel" {
				c.Pool.mu.Lock()
				st.SkippedFuel++
				c.Pool.mu.Unlock()
				return nil
			}
			if rec.Status == "unspec" && !o.RunUnspec {
				c.Pool.mu.Lock()
				st.SkippedUnspec++
				c.Pool.mu.Unlock()
				return nil
			}
			src, err := Render(rec.Toks, o.Render)
			if err != nil {
				c.infra("cannot render %s: %v", rec.Key, err)
				return nil
			}
			id++
			if !rec.Repl {
				// how a text ENDS is layout too: in turn a final newline, none, a line comment that the end of input closes,
				// a block comment, trailing blanks
				src = strings.TrimSuffix(src, "\n") + []string{"\n", "", " // end", " /* end */", "\n \t", "\n// end\n"}[id%6]
			}
			c.Pool.mu.Lock()
			recs[id] = &rec
			c.Pool.mu.Unlock()
			fuel := 2000 + 60*rec.Steps
			cases <- &Case{ID: id, Mode: "run", Src: src, Stdin: stdinText(rec.Stdin), Repl: rec.Repl, Fuel: fuel}
			return nil
		})
		close(cases)
	}()
	err := c.Pool.Run(cases, func(cs *Case, r *Result) {
		rec := recs[cs.ID]
		delete(recs, cs.ID)
		st.N++
		st.Classes[rec.Cls]++
		if len(rec.Out) > 0 || rec.Status == "error" {
			st.Nontrivial++
		}
		if sampleEvery > 0 && st.N%sampleEvery == 1 {
			c.sample(map[string]interface{}{"family": rec.Fam, "key": rec.Key, "program": cs.Src, "stdin": cs.Stdin,
				"expected_status": rec.Status, "expected_output_records": len(rec.Out), "expected_diags": rec.Diags})
		}
		if what, detail := compareSem(rec, r, o); what != "" {
			cl := rec.Cls
			if cl == "" {
				cl = rec.Fam
			}
			c.violation(c.Prop+"|"+rec.Fam+"|"+cl+"|"+what, rec.Key, map[string]interface{}{
				"mode": "run", "src": cs.Src, "stdin": cs.Stdin, "repl": cs.Repl, "expected": rec, "detail": detail,
				"observed": map[string]interface{}{"out": r.Out, "err": r.Err, "events": r.Events, "panic": r.Panic, "crash": r.Crash, "fuel": r.Fuel}})
		}
	})
	if err != nil {
		c.infra("%v", err)
	}
	return st
}

func (c *Ctx) recordSem(name string, st *SemStats) {
	cl := make([]string, 0, len(st.Classes))
	for k := range st.Classes {
		cl = append(cl, k)
	}
	sort.Strings(cl)
	if len(cl) > 40 {
		cl = cl[:40]
	}
	fams, _ := c.Ev.Coverage["families"].([]interface{})
	c.Ev.Coverage["families"] = append(fams, map[string]interface{}{"family": name, "replayed": st.N, "nontrivial": st.Nontrivial,
		"skipped_fuel": st.SkippedFuel, "skipped_unspecified": st.SkippedUnspec, "by_spec_status": st.ByStatus, "classes": len(st.Classes), "class_names": cl})
	c.addInt("traces_validated_against_impl", st.N)
	c.addInt("evaluations", st.N)
	c.addInt("distinct_nontrivial", st.Nontrivial)
}

// replaySemCase re-runs one recorded violation.
func replaySemCase(o *SemOpts) func(c *Ctx, v *Violation) {
	return func(c *Ctx, v *Violation) {
		b, _ := json.Marshal(v.Detail)
		var d struct {
			Src      string  `json:"src"`
			Stdin    string  `json:"stdin"`
			Repl     bool    `json:"repl"`
			Expected *SemRec `json:"expected"`
		}
		json.Unmarshal(b, &d)
		if d.Expected == nil {
			c.infra("replay file has no expected record")
			return
		}
		cases := make(chan *Case, 1)
		cases <- &Case{ID: 1, Mode: "run", Src: d.Src, Stdin: d.Stdin, Repl: d.Repl, Fuel: 2000 + 60*d.Expected.Steps}
		close(cases)
		c.Pool.N = 1
		c.Pool.Run(cases, func(cs *Case, r *Result) {
			if what, detail := compareSem(d.Expected, r, o); what != "" {
				c.violation(v.Sig, v.Key, map[string]interface{}{"detail": detail})
				fmt.Printf("replay: still failing: %s (%s)\n", what, detail)
			} else {
				fmt.Println("replay: case passes now")
			}
		})
	}
}

var reRuntimeLine = regexp.MustCompile(`(?m)^\[line (\d+)\]\s*$`)

// compareSemCLI checks a whole-process run of the executable against the prescribed behaviour:
// stdout bytes, exit status (0 / 70), diagnostics only on stderr, first diagnostic's line.
func compareSemCLI(rec *SemRec, r *CLIRun, o *SemOpts) (string, string) {
	what, detail := compareSemCLICore(rec, r, o)
	if what != "" && strings.HasPrefix(rec.Why, "soft:") {
		if alt := softAlternative(rec); alt != nil {
			if w2, _ := compareSemCLICore(alt, r, o); w2 == "" {
				return "", ""
			}
		}
	}
	return what, detail
}

func compareSemCLICore(rec *SemRec, r *CLIRun, o *SemOpts) (string, string) {
	if r.Killed {
		return "cli:no-termination", "the process did not finish within the time limit"
	}
	if strings.Contains(r.Err, "panic:") || strings.Contains(r.Err, "fatal error:") || strings.Contains(r.Err, "goroutine ") || r.Exit == 2 {
		return "cli:abnormal-termination", clip(r.Err, 300)
	}
	wantExit := 0
	if rec.Status == "error" {
		wantExit = 70
	}
	if idx, what, detail := matchOut(expectedOut(rec, r.Out, o), r.Out, false); idx >= 0 {
		return "cli:out:" + what, fmt.Sprintf("output record %d: %s", idx, detail)
	}
	if r.Exit != wantExit {
		return fmt.Sprintf("cli:exit:%d->%d", wantExit, r.Exit), fmt.Sprintf("exit status %d, expected %d; stderr %q", r.Exit, wantExit, clip(r.Err, 120))
	}
	if rec.Status == "done" && r.Err != "" {
		return "cli:stderr-on-clean-run", clip(r.Err, 120)
	}
	if rec.Status == "error" {
		m := reRuntimeLine.FindStringSubmatch(r.Err)
		if m == nil {
			return "cli:diag-missing", fmt.Sprintf("no diagnostic with a line on stderr: %q", clip(r.Err, 120))
		}
		if n, _ := strconv.Atoi(m[1]); n != rec.Diags[0].Ln {
			return "cli:diag-line", fmt.Sprintf("first diagnostic names line %d, expected %d", n, rec.Diags[0].Ln)
		}
	}
	return "", ""
}

// replaySemCLI runs (a sample of) the records of a family file through the built executable.
func (c *Ctx) replaySemCLI(path string, o *SemOpts, every int, timeout time.Duration) int64 {
	type job struct {
		rec *SemRec
		src string
	}
	jobs := make(chan job, 64)
	var n int64
	var wg sync.WaitGroup
	var mu sync.Mutex
	for w := 0; w < runtime.NumCPU(); w++ {
		wg.Add(1)
		go func(w int) {
			defer wg.Done()
			i := 0
			for j := range jobs {
				i++
				f := filepath.Join(c.Work, fmt.Sprintf("cli_%d_%d.bn", w, i%4))
				os.WriteFile(f, []byte(j.src), 0644)
				in := stdinText(j.rec.Stdin)
				r := c.runCLI([]string{f}, in, timeout)
				what, detail := compareSemCLI(j.rec, &r, o)
				if what == "" && o.BothStdinEndings && len(j.rec.Stdin) > 0 && len(j.rec.Stdin[len(j.rec.Stdin)-1]) > 0 {
					r = c.runCLI([]string{f}, strings.TrimSuffix(in, "\n"), timeout)
					if what, detail = compareSemCLI(j.rec, &r, o); what != "" {
						what = "no-final-newline:" + what
					}
					mu.Lock()
					n++
					mu.Unlock()
				}
				mu.Lock()
				n++
				if what != "" {
					cl := j.rec.Cls
					c.violation(c.Prop+"|"+j.rec.Fam+"|"+cl+"|"+what, j.rec.Key, map[string]interface{}{
						"mode": "cli", "src": j.src, "stdin": stdinText(j.rec.Stdin), "expected": j.rec, "detail": detail,
						"observed": map[string]interface{}{"out": r.Out, "err": r.Err, "exit": r.Exit, "killed": r.Killed}})
				}
				mu.Unlock()
			}
		}(w)
	}
	k := 0
	forEachLine(path, func(line []byte) error {
		var rec SemRec
		if json.Unmarshal(line, &rec) != nil || rec.Status == "fuel" || rec.Status == "unspec" {
			return nil
		}
		k++
		if every > 1 && (k+c.Seed)%every != 0 {
			return nil
		}
		src, err := Render(rec.Toks, o.Render)
		if err != nil {
			return nil
		}
		jobs <- job{&rec, src}
		return nil
	})
	close(jobs)
	wg.Wait()
	c.addInt("cli_runs", n)
	c.addInt("traces_validated_against_impl", n)
	return n
}


// ---------------------------------------------------------------------------------------------- direction 2

// TraceRun is one recorded run of the real interpreter handed to spec/trace/TraceSem.tla.
type TraceRun struct {
	Prog   json.RawMessage `json:"prog"`
	Stdin  [][]int         `json:"stdin"`
	Repl   bool            `json:"repl"`
	Events []TraceEv       `json:"events"`
	key    string
}

// recordTraces runs the programs of the given records with event tracing on and returns the recorded runs.
func (c *Ctx) recordTraces(recs []*SemRec) []*TraceRun {
	cases := make(chan *Case, 256)
	go func() {
		for i, r := range recs {
			src, err := Render(r.Toks, nil)
			if err != nil {
				continue
			}
			cases <- &Case{ID: i, Mode: "run", Src: src, Stdin: stdinText(r.Stdin), Repl: r.Repl, Fuel: 2000 + 60*r.Steps, Trace: true}
		}
		close(cases)
	}()
	runs := make([]*TraceRun, len(recs))
	c.Pool.Run(cases, func(cs *Case, r *Result) {
		rec := recs[cs.ID]
		if r.Crash != "" || r.Panic != "" || r.Fuel || len(r.Trace) == 0 {
			return // abnormal runs are direction 1's business
		}
		st := rec.Stdin
		if st == nil {
			st = [][]int{}
		}
		runs[cs.ID] = &TraceRun{Prog: rec.Tree, Stdin: st, Repl: rec.Repl, Events: r.Trace, key: rec.Fam + ":" + rec.Key}
	})
	var out []*TraceRun
	for _, r := range runs {
		if r != nil && len(r.Prog) > 0 {
			out = append(out, r)
		}
	}
	return out
}

var reHWM = regexp.MustCompile(`<<"HWM", (\d+), (\d+)>>`)

// validateTraces checks the recorded runs against TraceSem with TLC.  It returns the number of accepted runs; the
// first run that no behaviour of the specification explains is reported (after direction 1 has had its say).
func (c *Ctx) validateTraces(name string, runs []*TraceRun) int {
	if len(runs) == 0 {
		return 0
	}
	accepted := 0
	for len(runs) > 0 {
		dir := filepath.Join(c.Work, "tlc_TraceSem")
		os.MkdirAll(dir, 0755)
		b, _ := json.Marshal(runs)
		os.WriteFile(filepath.Join(dir, "traces.json"), b, 0644)
		res := c.runTLCRaw(TLCJob{Module: "TraceSem", Cfg: "TraceSem.cfg", Workers: 1, Timeout: 30 * time.Minute})
		m := reHWM.FindStringSubmatch(res.Log)
		if m == nil {
			c.infra("trace validation (%s): no acceptance mark in the TLC output: %s", name, clip(res.Err+res.Log, 600))
			return accepted
		}
		hwm, _ := strconv.Atoi(m[1])
		tr, l := hwm/100000, hwm%100000
		if tr > len(runs) {
			accepted += len(runs)
			break
		}
		accepted += tr - 1
		bad := runs[tr-1]
		var next interface{} = "end of trace"
		if l-1 < len(bad.Events) {
			next = bad.Events[l-1]
		}
		if os.Getenv("VERIF_KEEP") != "" {
			os.WriteFile(filepath.Join(c.Work, fmt.Sprintf("rejected_%d.json", len(c.Viol))), b, 0644)
			break
		}
		kc := name
		if strings.HasPrefix(bad.key, "example:") {
			kc = bad.key
		}
		c.violation(c.Prop+"|trace|"+kc+"|rejected", bad.key, map[string]interface{}{"mode": "trace", "detail": fmt.Sprintf("the specification explains the first %d recorded events of this run but not the next one", l-1),
			"next_event": next, "events": bad.Events})
		runs = runs[tr:]
	}
	c.addInt("traces_checked_against_spec", int64(accepted))
	c.addInt("traces_validated_against_impl", int64(accepted))
	return accepted
}
