package main

import (
	"bufio"
	"bytes"
	"encoding/json"
	"fmt"
	"os"
	"os/exec"
	"sync"
	"time"
)

// Pool runs cases in worker sub-processes (this same executable with argv[1] = "worker").
type Pool struct {
	N        int
	WorkDir  string
	Timeout  time.Duration // per case, wall clock (only a backstop: runaway programs are stopped by step fuel)
	Restarts int
	mu       sync.Mutex
}

type wproc struct {
	cmd    *exec.Cmd
	in     *os.File // we write cases
	out    *bufio.Reader
	outF   *os.File
	stderr *bytes.Buffer
	lines  chan []byte
}

func (p *Pool) start() (*wproc, error) {
	exe, err := os.Executable()
	if err != nil {
		return nil, err
	}
	cr, cw, err := os.Pipe()
	if err != nil {
		return nil, err
	}
	rr, rw, err := os.Pipe()
	if err != nil {
		return nil, err
	}
	cmd := exec.Command(exe, "worker")
	cmd.ExtraFiles = []*os.File{cr, rw}
	cmd.Env = append(os.Environ(), "VERIF_WORKDIR="+p.WorkDir, "GOTRACEBACK=single")
	var eb bytes.Buffer
	cmd.Stderr = &limitedWriter{b: &eb, max: 1 << 16}
	cmd.Stdout = nil
	if err := cmd.Start(); err != nil {
		return nil, err
	}
	cr.Close()
	rw.Close()
	w := &wproc{cmd: cmd, in: cw, outF: rr, out: bufio.NewReaderSize(rr, 1<<20), stderr: &eb, lines: make(chan []byte, 256)}
	go func() {
		for {
			l, err := w.out.ReadBytes('\n')
			if len(l) > 0 {
				w.lines <- l
			}
			if err != nil {
				close(w.lines)
				return
			}
		}
	}()
	return w, nil
}

type limitedWriter struct {
	b   *bytes.Buffer
	max int
}

func (l *limitedWriter) Write(p []byte) (int, error) {
	if l.b.Len() < l.max {
		n := l.max - l.b.Len()
		if n > len(p) {
			n = len(p)
		}
		l.b.Write(p[:n])
	}
	return len(p), nil
}

func (w *wproc) kill() {
	w.in.Close()
	if w.cmd.Process != nil {
		w.cmd.Process.Kill()
	}
	w.cmd.Wait()
	w.outF.Close()
}

func (w *wproc) stop() {
	w.in.Close()
	done := make(chan struct{})
	go func() { w.cmd.Wait(); close(done) }()
	select {
	case <-done:
	case <-time.After(5 * time.Second):
		w.cmd.Process.Kill()
		<-done
	}
	w.outF.Close()
}

// Run feeds every case from `cases` to some worker and calls handle(case, result) (serialised by a mutex).
func (p *Pool) Run(cases <-chan *Case, handle func(c *Case, r *Result)) error {
	if p.Timeout == 0 {
		p.Timeout = 60 * time.Second
	}
	var wg sync.WaitGroup
	var firstErr error
	var emu sync.Mutex
	setErr := func(e error) {
		emu.Lock()
		if firstErr == nil {
			firstErr = e
		}
		emu.Unlock()
	}
	const batchN = 48
	for i := 0; i < p.N; i++ {
		wg.Add(1)
		go func() {
			defer wg.Done()
			var w *wproc
			defer func() {
				if w != nil {
					w.stop()
				}
			}()
			for {
				batch := make([]*Case, 0, batchN)
				for len(batch) < batchN {
					c, ok := <-cases
					if !ok {
						break
					}
					batch = append(batch, c)
				}
				if len(batch) == 0 {
					return
				}
				for len(batch) > 0 {
					if w == nil {
						var err error
						if w, err = p.start(); err != nil {
							setErr(fmt.Errorf("cannot start worker: %v", err))
							for range cases {
							}
							return
						}
					}
					var buf bytes.Buffer
					enc := json.NewEncoder(&buf)
					for _, c := range batch {
						enc.Encode(c)
					}
					go func(b []byte, f *os.File) { f.Write(b) }(buf.Bytes(), w.in)
					answered := 0
					failed := false
					for answered < len(batch) {
						var line []byte
						var ok bool
						select {
						case line, ok = <-w.lines:
						case <-time.After(p.Timeout):
							ok = false
							line = []byte("TIMEOUT")
						}
						if !ok {
							// worker died or hung on batch[answered]
							c := batch[answered]
							r := &Result{ID: c.ID}
							if string(line) == "TIMEOUT" {
								r.Crash = "hang: no answer within " + p.Timeout.String()
							}
							w.kill()
							if r.Crash == "" {
								st := w.stderr.String()
								if len(st) > 3000 {
									st = st[:3000]
								}
								r.Crash = "worker died: " + w.cmd.ProcessState.String() + "\n" + st
							}
							w = nil
							p.mu.Lock()
							p.Restarts++
							handle(c, r)
							p.mu.Unlock()
							batch = batch[answered+1:]
							failed = true
							break
						}
						var r Result
						if err := json.Unmarshal(line, &r); err != nil {
							setErr(fmt.Errorf("bad worker answer: %v", err))
							w.kill()
							w = nil
							batch = nil
							failed = true
							break
						}
						c := batch[answered]
						if r.ID != c.ID {
							setErr(fmt.Errorf("worker answered id %d, expected %d", r.ID, c.ID))
						}
						p.mu.Lock()
						handle(c, &r)
						p.mu.Unlock()
						answered++
					}
					if !failed {
						batch = nil
					}
				}
			}
		}()
	}
	wg.Wait()
	return firstErr
}
