module verif/harness

go 1.22.6

toolchain go1.23.5

require github.com/ah-naf/borno v0.0.0

require golang.org/x/text v0.21.0 // indirect

replace github.com/ah-naf/borno => /repo
