package tlc2.module;

import java.io.BufferedWriter;
import java.io.FileWriter;
import java.io.IOException;
import java.math.BigDecimal;
import java.math.BigInteger;
import java.math.MathContext;
import java.math.RoundingMode;
import java.text.Normalizer;

import tlc2.value.impl.BoolValue;
import tlc2.value.impl.FcnRcdValue;
import tlc2.value.impl.IntValue;
import tlc2.value.impl.RecordValue;
import tlc2.value.impl.SetEnumValue;
import tlc2.value.impl.StringValue;
import tlc2.value.impl.TupleValue;
import tlc2.value.impl.Value;
import tlc2.value.impl.ValueVec;
import util.UniqueString;

/**
 * Host primitives of the Borno specification (module Host.tla): IEEE-754 binary64 and int64
 * arithmetic, decimal conversion, Unicode normalisation, and JSON emission of TLC values.
 *
 * Numbers are carried in the specification as canonical strings:
 *   "NaN" "Inf" "-Inf" "0" "-0", otherwise [-]<mantissa>e<exp> with an integer mantissa without
 *   trailing zeros holding the SHORTEST digits that round-trip (value = mantissa * 10^exp),
 *   and "i:<decimal>" for an int64 value that is not exactly representable as a double.
 *
 * Every PUBLIC STATIC method is an operator override for TLC; helpers are therefore not public.
 */
public class Host {
    public static final long serialVersionUID = 20260926L;

    // ------------------------------------------------------------------ canonical numbers
    static boolean isI(String s) { return s.startsWith("i:"); }

    static long i64of(String s) { return Long.parseLong(s.substring(2)); }

    static double dbl(String s) {
        if (isI(s)) return (double) i64of(s);
        switch (s) {
        case "NaN": return Double.NaN;
        case "Inf": return Double.POSITIVE_INFINITY;
        case "-Inf": return Double.NEGATIVE_INFINITY;
        case "0": return 0.0;
        case "-0": return -0.0;
        default: return new BigDecimal(s).doubleValue();
        }
    }

    static double dv(Value v) { return dbl(((StringValue) v).val.toString()); }

    static String sv(Value v) { return ((StringValue) v).val.toString(); }

    /** digits[0] = shortest digit string (no trailing zeros), returns decimal point position dp:
     *  |x| = 0.d1d2...dn * 10^dp. */
    static int shortest(double ax, StringBuilder out) {
        BigDecimal exact = new BigDecimal(ax);
        for (int p = 1; p <= 17; p++) {
            BigDecimal lo = exact.round(new MathContext(p, RoundingMode.FLOOR));
            BigDecimal hi = exact.round(new MathContext(p, RoundingMode.CEILING));
            boolean okLo = lo.doubleValue() == ax, okHi = hi.doubleValue() == ax;
            BigDecimal pick = null;
            if (okLo && okHi) {
                int c = exact.subtract(lo).compareTo(hi.subtract(exact));
                if (c < 0) pick = lo;
                else if (c > 0) pick = hi;
                else {
                    // tie: even last digit (at precision p)
                    BigInteger ul = lo.unscaledValue();
                    // lo may have fewer than p digits if it has trailing zeros stripped? round keeps p digits.
                    pick = ul.testBit(0) ? hi : lo;
                }
            } else if (okLo) pick = lo;
            else if (okHi) pick = hi;
            if (pick != null) {
                BigDecimal st = pick.stripTrailingZeros();
                String ds = st.unscaledValue().toString();
                out.append(ds);
                // value = unscaled * 10^-scale ; dp = len(ds) - scale
                return ds.length() - st.scale();
            }
        }
        throw new IllegalStateException("no shortest representation for " + ax);
    }

    static String canon(double x) {
        if (Double.isNaN(x)) return "NaN";
        if (Double.isInfinite(x)) return x > 0 ? "Inf" : "-Inf";
        if (x == 0.0) return (Double.doubleToRawLongBits(x) != 0L) ? "-0" : "0";
        StringBuilder sb = new StringBuilder();
        int dp = shortest(Math.abs(x), sb);
        int exp = dp - sb.length();
        return (x < 0 ? "-" : "") + sb + "e" + exp;
    }

    static String canonI(long v) {
        double d = (double) v;
        // exactly representable iff converting back is lossless (and not the 2^63 overflow case)
        if (d != 9.223372036854775807E18 && (long) d == v) return canon(d);
        return "i:" + v;
    }

    static Value str(String s) { return new StringValue(s); }

    static Value bool(boolean b) { return b ? BoolValue.ValTrue : BoolValue.ValFalse; }

    public static Value Dec(Value s) {
        String t = sv(s);
        if (t.equals("NaN") || t.equals("Inf") || t.equals("-Inf")) return str(t);
        if (t.equals("-0")) return str("-0");
        return str(canon(new BigDecimal(t).doubleValue()));
    }

    public static Value FromInt(Value n) { return str(canon((double) ((IntValue) n).val)); }

    public static Value FitsInt(Value x) {
        String s = sv(x);
        if (isI(s)) return BoolValue.ValFalse;
        double d = dbl(s);
        return bool(!Double.isNaN(d) && !Double.isInfinite(d) && d == Math.rint(d) && Math.abs(d) <= 1e9);
    }

    public static Value ToInt(Value x) { return IntValue.gen((int) dv(x)); }

    public static Value FAdd(Value a, Value b) { return str(canon(dv(a) + dv(b))); }

    public static Value FSub(Value a, Value b) { return str(canon(dv(a) - dv(b))); }

    public static Value FMul(Value a, Value b) { return str(canon(dv(a) * dv(b))); }

    public static Value FDiv(Value a, Value b) { return str(canon(dv(a) / dv(b))); }

    /** C fmod / Go math.Mod: result has the sign of the dividend, exact. Java % on doubles is fmod. */
    public static Value FMod(Value a, Value b) { return str(canon(dv(a) % dv(b))); }

    public static Value FNeg(Value a) { return str(canon(-dv(a))); }

    static double pow(double x, double y) {
        // IEEE 754-2008 9.2.1 special cases where java.lang.Math.pow deviates
        if (y == 0.0) return 1.0;
        if (x == 1.0) return 1.0;
        if (x == -1.0 && Double.isInfinite(y)) return 1.0;
        return StrictMath.pow(x, y);
    }

    public static Value FPow(Value a, Value b) { return str(canon(pow(dv(a), dv(b)))); }

    public static Value FLt(Value a, Value b) { return bool(dv(a) < dv(b)); }

    public static Value FLe(Value a, Value b) { return bool(dv(a) <= dv(b)); }

    /** numeric equality; two int64-only values compare as integers */
    public static Value FEq(Value a, Value b) {
        String x = sv(a), y = sv(b);
        if (isI(x) && isI(y)) return bool(i64of(x) == i64of(y));
        if (isI(x) || isI(y)) {
            // compare exactly: an i: value is never exactly a double
            return BoolValue.ValFalse;
        }
        return bool(dbl(x) == dbl(y));
    }

    public static Value IsNaN(Value a) { return bool(Double.isNaN(dv(a))); }

    public static Value IsInf(Value a) { return bool(Double.isInfinite(dv(a))); }

    public static Value IsZero(Value a) { String s = sv(a); return bool(!isI(s) && dbl(s) == 0.0); }

    public static Value IsIntegral(Value a) {
        String s = sv(a);
        if (isI(s)) return BoolValue.ValTrue;
        double d = dbl(s);
        return bool(!Double.isNaN(d) && !Double.isInfinite(d) && d == Math.rint(d));
    }

    /** ULP distance between two finite doubles of the same sign class, capped at 1e9; -1 if incomparable */
    public static Value UlpDist(Value a, Value b) {
        double x = dv(a), y = dv(b);
        if (Double.isNaN(x) || Double.isNaN(y)) return IntValue.gen(Double.isNaN(x) && Double.isNaN(y) ? 0 : -1);
        long lx = Double.doubleToLongBits(x), ly = Double.doubleToLongBits(y);
        if (lx < 0) lx = Long.MIN_VALUE - lx;
        if (ly < 0) ly = Long.MIN_VALUE - ly;
        long d = Math.abs(lx - ly);
        return IntValue.gen(d > 1000000000L || d < 0 ? 1000000000 : (int) d);
    }

    // ------------------------------------------------------------------ int64
    static boolean hasI64(String s) {
        if (isI(s)) return true;
        double d = dbl(s);
        if (Double.isNaN(d) || Double.isInfinite(d) || d != Math.rint(d)) return false;
        return d >= -9.223372036854775808E18 && d < 9.223372036854775808E18;
    }

    static long i64(Value v) {
        String s = sv(v);
        if (isI(s)) return i64of(s);
        return (long) dbl(s);
    }

    public static Value HasI64(Value a) { return bool(hasI64(sv(a))); }

    public static Value I64Neg(Value a) { return bool(i64(a) < 0); }

    public static Value BAnd(Value a, Value b) { return str(canonI(i64(a) & i64(b))); }

    public static Value BOr(Value a, Value b) { return str(canonI(i64(a) | i64(b))); }

    public static Value BXor(Value a, Value b) { return str(canonI(i64(a) ^ i64(b))); }

    public static Value BNot(Value a) { return str(canonI(~i64(a))); }

    /** shift count must be >= 0 (the specification raises an error for negative counts first) */
    public static Value Shl(Value a, Value b) {
        long x = i64(a), n = i64(b);
        return str(canonI(n >= 64 ? 0L : x << n));
    }

    public static Value Shr(Value a, Value b) {
        long x = i64(a), n = i64(b);
        return str(canonI(n >= 64 ? (x < 0 ? -1L : 0L) : x >> n));
    }

    /** TRUE iff the value is an int64 that a double cannot hold exactly ("i:" form) */
    public static Value IsWideInt(Value a) { return bool(isI(sv(a))); }

    // ------------------------------------------------------------------ math built-ins
    public static Value Sqrt(Value a) { return str(canon(Math.sqrt(dv(a)))); }

    public static Value Abs(Value a) { return str(canon(Math.abs(dv(a)))); }

    /** round half away from zero, exactly (BigDecimal), keeping the sign of zero like C round() */
    public static Value Round(Value a) {
        double x = dv(a);
        if (Double.isNaN(x) || Double.isInfinite(x) || x == 0.0) return str(canon(x));
        BigDecimal r = new BigDecimal(x).setScale(0, RoundingMode.HALF_UP); // HALF_UP = away from zero on ties
        double d = r.doubleValue();
        if (d == 0.0 && x < 0) d = -0.0;
        return str(canon(d));
    }

    public static Value Sin(Value a) { return str(canon(StrictMath.sin(dv(a)))); }

    public static Value Cos(Value a) { return str(canon(StrictMath.cos(dv(a)))); }

    public static Value Tan(Value a) { return str(canon(StrictMath.tan(dv(a)))); }

    // ------------------------------------------------------------------ decimal text <-> number
    static TupleValue ints(int[] a, int n) {
        Value[] vs = new Value[n];
        for (int i = 0; i < n; i++) vs[i] = IntValue.gen(a[i]);
        return new TupleValue(vs);
    }

    static int[] cps(Value v) {
        Value t = v.toTuple();
        if (t == null) throw new IllegalArgumentException("not a sequence: " + v);
        Value[] e = ((TupleValue) t).elems;
        int[] r = new int[e.length];
        for (int i = 0; i < e.length; i++) r[i] = ((IntValue) e[i]).val;
        return r;
    }

    /** [neg, ds, dp]: |x| = 0.d1..dn * 10^dp with shortest digits; "i:" values give all their digits */
    public static Value Digits(Value a) {
        String s = sv(a);
        boolean neg;
        String ds;
        int dp;
        if (isI(s)) {
            long v = i64of(s);
            neg = v < 0;
            ds = BigInteger.valueOf(v).abs().toString();
            dp = ds.length();
        } else {
            double x = dbl(s);
            neg = x < 0 || (x == 0.0 && Double.doubleToRawLongBits(x) != 0L);
            if (x == 0.0) { ds = "0"; dp = 1; }
            else {
                StringBuilder sb = new StringBuilder();
                dp = shortest(Math.abs(x), sb);
                ds = sb.toString();
            }
        }
        int[] d = new int[ds.length()];
        for (int i = 0; i < d.length; i++) d[i] = ds.charAt(i) - '0';
        UniqueString[] names = { UniqueString.uniqueStringOf("neg"), UniqueString.uniqueStringOf("ds"),
                UniqueString.uniqueStringOf("dp") };
        Value[] vals = { bool(neg), ints(d, d.length), IntValue.gen(dp) };
        return new RecordValue(names, vals, false);
    }

    /** hex bit pattern of a double-valued number; "i:.." passes through */
    public static Value Bits(Value a) {
        String s = sv(a);
        if (isI(s)) return a;
        return str(String.format("%016x", Double.doubleToRawLongBits(dbl(s))));
    }

    /** ASCII text (code points of digits and at most one '.') -> canonical nearest double, or "OVERFLOW" */
    public static Value ParseLit(Value text) {
        int[] c = cps(text);
        StringBuilder sb = new StringBuilder();
        for (int x : c) sb.appendCodePoint(x);
        double d = new BigDecimal(sb.toString()).doubleValue();
        if (Double.isInfinite(d)) return str("OVERFLOW");
        return str(canon(d));
    }

    /** deterministic pseudo-random doubles of mixed magnitudes */
    public static Value Rand(Value seed, Value idx) {
        long z = ((long) ((IntValue) seed).val) * 0x9E3779B97F4A7C15L + ((long) ((IntValue) idx).val + 1) * 0xBF58476D1CE4E5B9L;
        z = (z ^ (z >>> 30)) * 0xBF58476D1CE4E5B9L;
        z = (z ^ (z >>> 27)) * 0x94D049BB133111EBL;
        z = z ^ (z >>> 31);
        int mode = (int) ((z >>> 60) & 7);
        double d;
        switch (mode) {
        case 0: d = Double.longBitsToDouble(z); break; // any bit pattern
        case 1: d = (double) ((z >> 20) % 2000001L) / 1000.0; break; // 3 decimals
        case 2: d = (double) (z >> 11); break; // big integers
        case 3: d = ((double) (z >> 12)) / 4503599627370496.0; break; // (-1,1)
        case 4: d = (double) ((z >> 40) % 1000L); break; // small ints
        case 5: d = Math.scalb((double) (z >> 12), (int) ((z & 0x7ff) % 200) - 100); break;
        case 6: d = (double) ((z >> 30) % 100000000L) / 100.0; break;
        default: d = Double.longBitsToDouble((z & 0x800fffffffffffffL) | ((1023L + ((z >>> 52) & 63) - 32) << 52)); break;
        }
        if (Double.isNaN(d) || Double.isInfinite(d)) d = 1.5;
        return str(canon(d));
    }

    static long mix(long seed, long idx) {
        long z = seed * 0x9E3779B97F4A7C15L + (idx + 1) * 0xBF58476D1CE4E5B9L;
        z = (z ^ (z >>> 30)) * 0xBF58476D1CE4E5B9L;
        z = (z ^ (z >>> 27)) * 0x94D049BB133111EBL;
        return z ^ (z >>> 31);
    }

    /** deterministic pseudo-random integer in 0..n-1 */
    public static Value RandInt(Value seed, Value idx, Value n) {
        long z = mix(((IntValue) seed).val, ((IntValue) idx).val);
        int m = ((IntValue) n).val;
        return IntValue.gen((int) Long.remainderUnsigned(z, m));
    }

    /** the integer given by -Dverif.seed (default 1): VERIF_SEED reaches the specification this way */
    public static Value SeedProp() {
        return IntValue.gen(Integer.parseInt(System.getProperty("verif.seed", "1")) & 0xfffff);
    }

    /** exact decimal digits of (x + nextUp(x))/2 for a finite positive double, as ASCII code points,
     *  with `bump` in {-1,0,1}: one unit in a far-away last place added/subtracted */
    public static Value HalfwayText(Value a, Value bump) {
        double x = Math.abs(dv(a));
        double y = Math.nextUp(x);
        BigDecimal m;
        if (Double.isInfinite(y)) {
            // halfway between MAX_VALUE and 2^1024
            BigDecimal two1024 = new BigDecimal(BigInteger.ONE.shiftLeft(1024));
            m = new BigDecimal(x).add(two1024).divide(BigDecimal.valueOf(2));
        } else {
            m = new BigDecimal(x).add(new BigDecimal(y)).divide(BigDecimal.valueOf(2));
        }
        int b = ((IntValue) bump).val;
        String plain = m.toPlainString();
        if (plain.indexOf('.') < 0) plain = plain + ".0";
        if (b > 0) plain = plain + "0000000001";
        if (b < 0) {
            // subtract a tiny amount: decrement last digit (which is nonzero for an exact midpoint or '0' after ".")
            BigDecimal eps = BigDecimal.ONE.movePointLeft(new BigDecimal(plain).scale() + 10);
            plain = new BigDecimal(plain).subtract(eps).toPlainString();
        }
        int[] r = plain.codePoints().toArray();
        return ints(r, r.length);
    }

    // ------------------------------------------------------------------ Unicode
    static Value norm(Value v, Normalizer.Form f) {
        int[] c = cps(v);
        StringBuilder sb = new StringBuilder();
        for (int x : c) sb.appendCodePoint(x);
        int[] r = Normalizer.normalize(sb, f).codePoints().toArray();
        return ints(r, r.length);
    }

    public static Value NFC(Value v) { return norm(v, Normalizer.Form.NFC); }

    public static Value NFD(Value v) { return norm(v, Normalizer.Form.NFD); }

    public static Value StrCps(Value s) {
        int[] r = sv(s).codePoints().toArray();
        return ints(r, r.length);
    }

    public static Value CpsStr(Value v) {
        int[] c = cps(v);
        StringBuilder sb = new StringBuilder();
        for (int x : c) sb.appendCodePoint(x);
        return str(sb.toString());
    }

    public static Value IntStr(Value n) { return str(Integer.toString(((IntValue) n).val)); }

    // ------------------------------------------------------------------ emission
    static BufferedWriter out;
    static long emitted = 0;

    static synchronized void writeLine(String s) {
        try {
            if (out == null) {
                String p = System.getProperty("verif.out");
                if (p == null) p = "emit.ndjson";
                out = new BufferedWriter(new java.io.OutputStreamWriter(new java.io.FileOutputStream(p, true), java.nio.charset.StandardCharsets.UTF_8), 1 << 20);
                final BufferedWriter o = out;
                Runtime.getRuntime().addShutdownHook(new Thread(() -> {
                    try { synchronized (Host.class) { o.flush(); } } catch (IOException e) { }
                }));
            }
            out.write(s);
            out.write('\n');
            emitted++;
            if ((emitted & 0x3ff) == 0) out.flush();
        } catch (IOException e) {
            throw new RuntimeException(e);
        }
    }

    static void jstr(String s, StringBuilder sb) {
        sb.append('"');
        for (int i = 0; i < s.length(); i++) {
            char ch = s.charAt(i);
            if (ch == '"' || ch == '\\') sb.append('\\').append(ch);
            else if (ch < 0x20) sb.append(String.format("\\u%04x", (int) ch));
            else sb.append(ch);
        }
        sb.append('"');
    }

    static void json(Value v, StringBuilder sb) {
        if (v instanceof IntValue) sb.append(((IntValue) v).val);
        else if (v instanceof BoolValue) sb.append(((BoolValue) v).val ? "true" : "false");
        else if (v instanceof StringValue) jstr(((StringValue) v).val.toString(), sb);
        else if (v instanceof TupleValue) {
            sb.append('[');
            Value[] e = ((TupleValue) v).elems;
            for (int i = 0; i < e.length; i++) { if (i > 0) sb.append(','); json(e[i], sb); }
            sb.append(']');
        } else if (v instanceof RecordValue) {
            RecordValue r = (RecordValue) v;
            sb.append('{');
            for (int i = 0; i < r.names.length; i++) {
                if (i > 0) sb.append(',');
                jstr(r.names[i].toString(), sb);
                sb.append(':');
                json(r.values[i], sb);
            }
            sb.append('}');
        } else if (v instanceof SetEnumValue) {
            SetEnumValue s = (SetEnumValue) v;
            s.normalize();
            ValueVec ev = s.elems;
            sb.append('[');
            for (int i = 0; i < ev.size(); i++) { if (i > 0) sb.append(','); json(ev.elementAt(i), sb); }
            sb.append(']');
        } else {
            Value t = v.toTuple();
            if (t instanceof TupleValue) { json(t, sb); return; }
            Value r = v.toRcd();
            if (r instanceof RecordValue) { json(r, sb); return; }
            Value f = v.toFcnRcd();
            if (f instanceof FcnRcdValue) {
                FcnRcdValue fr = (FcnRcdValue) f;
                fr.normalize();
                sb.append('{');
                int n = fr.values.length;
                for (int i = 0; i < n; i++) {
                    if (i > 0) sb.append(',');
                    Value k = fr.intv != null ? IntValue.gen(fr.intv.low + i) : fr.domain[i];
                    jstr(k instanceof StringValue ? ((StringValue) k).val.toString() : k.toString(), sb);
                    sb.append(':');
                    json(fr.values[i], sb);
                }
                sb.append('}');
                return;
            }
            Value se = v.toSetEnum();
            if (se instanceof SetEnumValue) { json(se, sb); return; }
            jstr(v.toString(), sb);
        }
    }

    /** append the value as one JSON line to the file named by -Dverif.out; always TRUE */
    public static Value Emit(Value v) {
        StringBuilder sb = new StringBuilder(256);
        json(v, sb);
        writeLine(sb.toString());
        return BoolValue.ValTrue;
    }

    public static Value ToJsonStr(Value v) {
        StringBuilder sb = new StringBuilder(256);
        json(v, sb);
        return str(sb.toString());
    }
}
