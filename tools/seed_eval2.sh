#!/bin/bash
# tools/seed_eval2.sh <dir-with-patch.diff-and-demo> <label> <check...>
# Like seed_eval.sh, but on a scratch copy of /repo's HEAD (git worktree under /tmp), so that several seeded changes can
# be evaluated side by side and /repo is never touched.  Prints one summary line; the worktree is removed afterwards.
D=$(readlink -f $1); L=$2; shift 2
export GOFLAGS=-mod=mod GOPROXY=off GOSUMDB=off GOTOOLCHAIN=local
W=/tmp/se2_$L; rm -rf $W; git -C /repo worktree prune; git -C /repo worktree add -q --detach $W HEAD || { echo "$L: worktree failed"; exit 3; }
cleanup() { git -C /repo worktree remove --force $W 2>/dev/null; rm -rf $W /tmp/se2bin_$L; }
mkdir -p /tmp/se2bin_$L
(cd $W && GOFLAGS= go build -o /tmp/se2bin_$L/base . ) || { echo "$L: base build failed"; cleanup; exit 3; }
git -C $W apply "$D/patch.diff" 2>/dev/null || git -C $W apply --3way "$D/patch.diff" 2>/dev/null || { echo "$L: PATCH-DOES-NOT-APPLY"; cleanup; exit 4; }
git -C $W diff HEAD > /tmp/se2bin_$L/ported.diff
(cd $W && GOFLAGS= go build -o /tmp/se2bin_$L/mut . ) 2>/dev/null || { echo "$L: MUTANT-DOES-NOT-BUILD"; cleanup; exit 4; }
T=$( (cd $W && GOFLAGS= go test -count=1 ./... 2>&1) | grep -E "^\s+--- FAIL" | grep -v "Invalid_addition_of_string_and_boolean\|Object_Literal" | wc -l)
demo_ok() { if [ -f "$D/demo.sh" ]; then (cd "$D" && bash ./demo.sh "$1" >/dev/null 2>&1); return $?; fi; return 2; }
demo_ok /tmp/se2bin_$L/base; B=$?
demo_ok /tmp/se2bin_$L/mut; M=$?
RES=""
for c in "$@"; do
  out=$(VERIF_REPO=$W /verif/check $c 2>&1)
  if echo "$out" | grep -q "^VIOLATION"; then RES="$RES $c:CAUGHT"; elif echo "$out" | grep -q "INFRA"; then RES="$RES $c:infra"; else RES="$RES $c:missed"; fi
  echo "$out" | grep -E "^VIOLATION|INFRA" | head -5 > /verif/.work/seed_out_$L.$c.txt
done
mkdir -p /verif/.work/seed_out/$L; cp /tmp/se2bin_$L/ported.diff /verif/.work/seed_out/$L/patch.diff
echo "$L: extra-test-failures=$T demo(base)=$B demo(mutant)=$M checks:$RES"
cleanup
