#!/bin/bash
# tools/tlc.sh <Module> <cfg> [extra TLC args]: run TLC on a family in a scratch dir (development helper)
M=$1; C=$2; shift 2
D=/verif/.work/dev_$M; mkdir -p $D; cp /verif/spec/*.tla /verif/spec/fam/* $D/ 2>/dev/null; cp /verif/spec/trace/* $D/ 2>/dev/null
cd $D && rm -f out.ndjson && java -Dfile.encoding=UTF-8 -Dtlc2.tool.queue.IStateQueue=MemStateQueue -XX:+UseParallelGC -Xss512m -Dverif.out=out.ndjson -cp /opt/veriftools/tla/tla2tools.jar:/opt/veriftools/tla/CommunityModules-deps.jar:/verif/build/classes tlc2.TLC -metadir ./md -workers ${W:-16} -config $C "$@" $M 2>&1 | grep -v "^Loading"
