#!/usr/bin/env python3
"""Regenerates seeded/INDEX.md from the meta.json files (and, if given, a log of tools/seeded_all.sh)."""
import json, os, re, sys
root = os.path.join(os.path.dirname(os.path.abspath(__file__)), '..', 'seeded')
log = {}
if len(sys.argv) > 1:
    for l in open(sys.argv[1]):
        m = re.match(r'(\S+): extra-test-failures=(\d+) demo\(base\)=(\d+) demo\(mutant\)=(\d+) checks: (.*)', l)
        if m:
            log[m.group(1)] = m.groups()[1:]
rows = []
for d in sorted(os.listdir(root)):
    mf = os.path.join(root, d, 'meta.json')
    if not os.path.isfile(mf):
        continue
    m = json.load(open(mf))
    if d in log:
        t, b, mu, chk = log[d]
        m['caught_by'] = [c.split(':')[0] for c in chk.split() if c.endswith(':CAUGHT')]
        m['last_evaluation'] = {'extra_test_failures': int(t), 'demo_exit_unchanged': int(b), 'demo_exit_changed': int(mu), 'checks': chk.strip()}
        json.dump(m, open(mf, 'w'), ensure_ascii=False, indent=1)
    status = m.get('status', 'confirmed')
    rows.append((d, m['property'], m.get('round', 1), status, ', '.join(m.get('caught_by', [])) or '-', m.get('summary', '').replace('\n', ' ').replace('|', '/')[:110]))
with open(os.path.join(root, 'INDEX.md'), 'w') as f:
    f.write('# Seeded changes that break a property (see DESIGN.md 10)\n\n')
    f.write('Each directory holds `patch.diff` (applies to /repo at the current HEAD with `git apply`), the demonstration (`demo.sh <borno-binary>` exits 0 iff the property holds) and `meta.json`. '
            'None of these changes is ever committed to /repo: `tools/trymutant.sh seeded/<id>/patch.diff Cxx` applies one, runs the checks and restores the tree; '
            '`tools/seed_eval.sh seeded/<id> <id> Cxx` also re-confirms the demonstration; `tools/seeded_all.sh` does that for every directory. '
            'Round 1 changes were written against the pinned tree (and ported), round 2 (`R2-`) against the tree with the `fix:` commits.\n\n')
    f.write('| id | property | round | status | caught by (quick tier) | change |\n|---|---|---|---|---|---|\n')
    for r in rows:
        f.write('| %s | %s | %s | %s | %s | %s |\n' % r)
    n = len(rows)
    c = sum(1 for r in rows if r[4] != '-')
    f.write('\n%d seeded changes, %d caught by the quick tier of the check of their own property.\n' % (n, c))
print(len(rows), 'rows')
