#!/bin/bash
# tools/seeded_all.sh [log]: evaluates every seeded change with the check of its own property (one after the other: they share /repo)
LOG=${1:-/verif/.work/seeded_all.log}; : > $LOG
for d in /verif/seeded/*/; do
  id=$(basename $d); [ -f $d/patch.diff ] || continue
  p=$(python3 -c "import json;print(json.load(open('$d/meta.json'))['property'])")
  /verif/tools/seed_eval.sh $d $id $p 2>&1 | tail -1 | tee -a $LOG
done
python3 /verif/tools/seeded_index.py $LOG
