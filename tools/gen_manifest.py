#!/usr/bin/env python3
"""Regenerates /verif/MANIFEST.json from the table below (one source of truth for the check registry)."""
import json, os
ROOT = os.path.dirname(os.path.dirname(os.path.abspath(__file__)))
TB = ("Trusted base: TLC 1.8, the Host override (JVM double arithmetic, BigDecimal, StrictMath, java.text.Normalizer), "
      "the Go toolchain, the harness's abstraction function and tolerant comparators; ")
SEM = ("TLA+ abstract machine BornoSem (small-step semantics: scopes, closures, heap, signals, absorbing errors) model-checked by TLC on the program family %s "
       "(invariants and action properties in every state); every terminal state is emitted with the program and its prescribed behaviour and replayed into the interpreter rebuilt from /repo "
       "(layout gaps filled with comments, text endings varied); where stated also: recorded runs of the real interpreter validated as behaviours of the trace specification TraceSem, and seeded random well-behaved programs (FamGen) / long runs (FamStress) replayed")
def sem(fam, text, bound, ref):
    return dict(technique=SEM % fam,
        text="TLC executes every program of the family on the specification, checking the machine's invariants (absorbing errors, scope and heap discipline, local stores, append-only output) "
             "in every state, and emits each terminal state; the harness renders the program with the pinned spellings, runs it in-process with the verif hooks (and through the executable where streams and exit status matter) "
             "and compares stdout, first diagnostic (kind + line), built-in invocations and termination with tolerant comparators. " + text,
        note=TB + "the specification is the documentation-level reading of the language (DESIGN.md 4); bounds: " + bound, ref=ref)
CHECKS = {
 "C09": dict(
   technique="TLA+ spec BornoLex (declarative maximal munch + scanner machine) model-checked by TLC; every bounded text and its expected token list replayed into the real scanner",
   text="TLC explores every text up to the fragment bound, checks that the operational scanner machine refines the declarative maximal-munch tokenisation "
        "(plus partition/line/EOF/keyword invariants) in every state, and emits each text with its expected tokens; the harness replays all of them, "
        "tlc -simulate long texts and all 1.1M single code points into lexer.ScanTokens rebuilt from /repo and compares type, lexeme, literal and line of every token and every diagnostic line. "
        "Exhaustive within the bound, sampled beyond it.",
   note=TB + "Go's unicode tables for the per-code-point sweep; bound: texts of <=3 (quick) / <=4 (thorough) fragments over a 43-character + 20-word alphabet.",
   ref="DESIGN.md 4.1, 6 (C09)"),
 "C02": sem("FamOps", "Exhaustive over the operator x value-pair matrix, seeded random nested expressions beyond it; cells the documentation leaves open are not judged.",
            "17 binary + 3 unary operators x 25 (quick) / 36 (thorough) pool values per side, 600 / 20000 random expressions of depth <= 3", "DESIGN.md 4.3, 6 (C02)"),
 "C03": sem("FamScope", "Exhaustive over all in-domain scope histories of the size bound, seeded random longer ones.",
            "histories of total size 3 over 2 colliding names, nesting <= 2, plus 3000 (quick) / 30000 (thorough) random histories of 4-7 items, nesting <= 3, 13 lifetime / activation programs, every program also on one line; FamGen slice (400 / 6000 programs); trace validation of a sample", "DESIGN.md 4.4, 6 (C03)"),
 "C04": sem("FamCalls", "Exhaustive over return positions, closure-call interleavings and callee/arity cells within the bounds.",
            "return at every nesting of depth <= 2 (quick) / 3 (thorough) of 8 context kinds; closure histories of length <= 4 / 6; FamGen slice (400 / 6000 programs); FamStress (5200 returns, recursion 1000 deep, 2600 iterations); trace validation of a sample", "DESIGN.md 4.4, 6 (C04)"),
 "C05": sem("FamControl", "Exhaustive over control skeletons of the depth bound.", "skeleton depth 2 (quick, 3663 programs) / 3 (thorough); FamGen slice; FamStress; trace validation of a sample", "DESIGN.md 4.4, 6 (C05)"),
 "C06": sem("FamFaults", "Every fault kind x position cell; replay also through the executable for exit status 70/0 and stream separation.",
            "25 expression faults x 37 positions + 23 statement-level faults, x 1 (quick) / 4 (thorough) line paddings; trace validation of every program", "DESIGN.md 4.4, 6 (C06)"),
 "C07": sem("FamWild + FamMath + FamOps + FamCalls + FamFaults", "Only the outcome class is judged here: a recovered panic, a worker killed by a fatal error, or a hang is a violation; programs whose output is unspecified are still run.",
            "46 forms x 20 values x 6 partners, cyclic values, deep nesting, 2500 (quick) / 20000 (thorough) seeded random programs; coverage-guided fuzzing is not used (other technique family)", "DESIGN.md 6 (C07)"),
 "C11": sem("FamArrays", "Exhaustive over array-operation histories of the length bound; both variables printed after every step (pure list model).",
            "histories of <= 2 of 51 operations + one of 44 bad-index operations, 300 (quick) / 15000 (thorough) random histories of 12 operations; FamGen slice; trace validation of a sample", "DESIGN.md 4.4, 6 (C11)"),
 "C12": sem("FamObjects", "Exhaustive over object-operation histories of the length bound; listing order is free but must be stable and keys/values aligned.",
            "histories of <= 2 of 55 operations + one of 12 misuses, each in two renderings (everything shown after every step / one object shown only before and after), 300 (quick) / 15000 (thorough) random histories; FamGen slice; trace validation of a sample", "DESIGN.md 4.4, 6 (C12)"),
 "C14": sem("FamOrder", "Probe-tag sequences fix the evaluation order; every truthiness representative under every consumer.",
            "depth-1 and depth-2 probe forms incl. error paths, 33 truthiness representatives (literals, computed, returned) x 6 consumers (516 programs); FamGen slice; trace validation", "DESIGN.md 4.4, 6 (C14)"),
 "C15": sem("FamPrint", "Numbers are checked by relation (denotes exactly the value, shortest digits, integers < 10^6 plain), strings exactly (NFC); also through the executable (real stdout bytes).",
            "60 boundary numbers + 300 (quick) / 20000 (thorough) random doubles, 60 strings over Latin/Bangla/marks/decomposable code points, each in 4-19 print forms", "DESIGN.md 4.3, 6 (C15)"),
 "C16": sem("FamProducers", "All producers of a value must behave as the single specification value does, hence pairwise identically.",
            "90 one-hole contexts x 12 values x 7-14 producers (8400 programs); producers of one value must also agree on every soft (coerce-or-reject) choice", "DESIGN.md 6 (C16)"),
 "C17": sem("FamMath", "abs/sqrt/round exactly; sin/cos (4 ulp), tan (32 ulp), pow (64 ulp) relative to fdlibm on the moderate domain, exact where every correct implementation agrees; clock() against the harness clock.",
            "17 built-ins x 0..3 (quick) / 4 (thorough) arguments x 8 kinds; 30 boundary values + 200 / 20000 random doubles per unary function; 17x17 pow grid; 89 min/max lists", "DESIGN.md 4.3, 6 (C17)"),
 "C01": dict(
   technique="TLA+ specs BornoSyntax (ladder relation Canon, Yield, MinParen/FullParen/Strip) and BornoGrammar (predictive recogniser) checked against each other by TLC on every bounded tree / token sequence; trees and accepted sequences replayed into the real parser and compared node by node",
   text="For every tree of the family TLC proves Canon(MinParen t), Strip(MinParen t) = Strip(FullParen t) = t and that the recogniser parses both writings back to exactly those trees; for every accepted token sequence up to the length bound it proves Canon(tree) and Yield(tree) = tokens. "
        "Every tree (minimal and full parenthesisation) and every accepted sequence is then parsed by the real parser rebuilt from /repo and the abstracted AST compared node by node (Grouping included); both writings of every expression are also evaluated and compared.",
   note=TB + "bounds: depth-2 trees over all 21 binary-like operators, prefix/postfix combinations (quick); depth-3 over one representative per level and statement nesting depth 3 (thorough); token sequences of <= 4 / 5 tokens over a 38-token alphabet.",
   ref="DESIGN.md 4.2, 6 (C01)"),
 "C08": dict(
   technique="TLA+ specs BornoLexDecl + BornoGrammar (predictive recogniser with the valid-prefix property) explored by TLC over every viable token prefix and every bounded text; every prefix, every one-token extension and every text replayed into the real front end (accept/reject, line of first diagnostic), rejected texts also through the executable",
   text="TLC visits every viable prefix (one state each), emits whether it is a complete program and which tokens keep it viable; the harness extends every prefix with all 38 tokens and end of input and requires the real lexer+parser to accept exactly the accepted ones, to report the first diagnostic on the line of the first offending token, never to crash or hang; "
        "character level: every text of the fragment bound judged by the declarative lexer and the recogniser; schemata up to nesting depth 10 000, parameter limits, reserved names, assignment targets; a sample of rejected texts behind a printing statement through the executable (nothing runs, exit 65).",
   note=TB + "domain exclusions as stated in the property (var declarations spanning lines, trailing comma in object literals); bounds: prefixes <= 4 / 5 tokens, texts <= 3 / 4 fragments.",
   ref="DESIGN.md 4.2, 6 (C08)"),
 "C10": dict(
   technique="TLA+ spec BornoLex with Host!ParseLit (BigDecimal correct rounding) model-checked by TLC on every short literal in both scripts, random long literals and exact halfway cases; expected tokens replayed into the real scanner and evaluator; every code point through the transliteration helper",
   text="Every digit/point string up to the length bound in every script mixture, seeded random literals of up to 800 digits, exact halfway cases (below / at / above) between adjacent doubles, subnormal and overflow thresholds: the scanner machine is checked against the declarative tokenisation in TLC (script invariance, point-needs-digit) and every text is replayed: token value bit-exact, overflow diagnosed, and `print literal` shows a numeral denoting the value.",
   note=TB + "JVM BigDecimal.doubleValue as the independent correctly-rounding oracle; bounds: strings <= 3 / 4 characters over 21 characters, 500 / 6000 random literals and halfway cases.",
   ref="DESIGN.md 4.1, 6 (C10)"),
 "C13": sem("FamObjects, FamOrder, FamCalls, FamWild (+ shipped examples)", "Each program is run 40 / 300 times in one process and 24 / 200 times in fresh processes; all observations must be identical and equal to the specification's single behaviour (TLC: maximal out-degree 1). Go's map randomisation is sampled, not enumerated.",
            "about 150 (quick) / 700 (thorough) programs + 8 examples", "DESIGN.md 6 (C13)"),
 "C18": sem("FamControl, FamCalls, FamFaults, FamArrays, FamObjects, FamOrder, FamScope (+ shipped examples)", "Each program is transformed by the six families (layout, digit script, synonyms, renaming, parentheses, dead code), alone and combined, and must still behave as the specification prescribes for the original.",
            "about 1000 (quick) / 8000 (thorough) programs x 7 transformed variants", "DESIGN.md 6 (C18)"),
 "C19": dict(
   technique="TLA+ spec BornoProc (arguments, file, error flags, exit status, REPL loop) model-checked by TLC and proved inductive with Apalache; every terminal state instantiated with concrete command lines; BornoSem family FamInput for stdin/stdout replayed through the executable",
   text="BornoProc's invariants (ExitClassifies, NothingRunsOnStaticError, UsageOnlyOnMisuse, FlagsClearAtPrompt, ReplLineIndependence) hold in every reachable state (TLC) and IndInv is inductive for sessions of any length (Apalache); each abstract run is replayed with several concrete argument lists, file names and programs of the outcome class; FamInput checks that each input call consumes exactly one line (trimmed), with and without a final newline, and that diagnostics go to stderr only.",
   note=TB + "Apalache 0.58; checks run as root (unreadable = missing / directory / path through a file); exit-64 messages accepted on either stream.",
   ref="DESIGN.md 4.5, 6 (C19)"),
 "C20": dict(
   technique="TLA+ pipeline BornoFront (declarative lexer + recogniser) + BornoSem in interactive mode computes the response of every pool line in a fresh session; BornoProc's REPL loop model-checked (TLC) and proved inductive (Apalache); every bounded sequence of lines replayed through the real REPL",
   text="A line's response is defined by the specification as that of a fresh session; the harness runs every sequence of <= 2 / 3 lines over a 43-line pool (and thousands of random longer sessions) through the executable and requires, at every position, exactly that response on stdout between prompts, the diagnostics in order on stderr, and exit status 0 at end of input.",
   note=TB + "stdout/stderr are matched separately (their interleaving is not observable); the prompt is learned from an empty session.",
   ref="DESIGN.md 4.5, 6 (C20)"),
}
NOT_YET = "check not built yet in this round (see DESIGN.md 11 for the build order)"
props = [json.loads(l) for l in open(os.path.join(ROOT, "properties.jsonl"))]
checks, na = [], []
for p in props:
    i = p["id"]
    if i in CHECKS:
        c = CHECKS[i]
        checks.append({
            "property_id": i,
            "quick_cmd": "./check %s --tier quick" % i,
            "thorough_cmd": "./check %s --tier thorough" % i,
            "evidence_file": "/verif/evidence/%s.json" % i,
            "replay_cmd_template": "./check %s --replay {path}" % i,
            "engine": "tlc+harness",
            "level_claimed": {"category": "model_checking", "text": c["text"], "design_ref": c["ref"]},
            "level_note": c["note"],
            "technique": c["technique"],
        })
    else:
        na.append({"property_id": i, "reason": NOT_YET})
m = {
 "version": 1,
 "setup_cmd": "./setup.sh",
 "hooks": {
   "guard": "verif",
   "enable": "go build -tags verif (the harness module /verif/harness replaces github.com/ah-naf/borno by /repo)",
   "baseline_off_cmd": "cd /repo && go test -vet=off -count=1 ./...",
   "source_commits": [l.strip() for l in os.popen("git -C /repo log --format=%H --grep='^verif:'").read().split()],
   "add_only": True,
 },
 "engines": [
   {"name": "tlc+harness", "path": "/verif/check", "serves_properties": [c["property_id"] for c in checks],
    "kind_free_text": "TLC 1.8 on the TLA+ modules in /verif/spec (Host primitives overridden by /verif/java), driven by the Go orchestrator /verif/harness, "
                      "which replays TLC-generated behaviours into the code rebuilt from /repo and validates recorded traces against the trace specifications"},
 ],
 "checks": checks,
 "not_applicable": na,
 "notes": "All checks: exit 0 = held (KNOWN-FINDING lines for entries of known_findings.txt), exit 1 + VIOLATION lines, exit 2 = infrastructure problem (never a verdict).",
}
json.dump(m, open(os.path.join(ROOT, "MANIFEST.json"), "w"), indent=1, ensure_ascii=False)
print("MANIFEST.json: %d checks, %d not_applicable" % (len(checks), len(na)))
