#!/usr/bin/env python3
"""Regenerates /verif/MANIFEST.json from the table below (one source of truth for the check registry)."""
import json, os
ROOT = os.path.dirname(os.path.dirname(os.path.abspath(__file__)))
TB = ("Trusted base: TLC 1.8, the Host override (JVM double arithmetic, BigDecimal, StrictMath, java.text.Normalizer), "
      "the Go toolchain, the harness's abstraction function and tolerant comparators; ")
CHECKS = {
 "C09": dict(
   technique="TLA+ spec BornoLex (declarative maximal munch + scanner machine) model-checked by TLC; every bounded text and its expected token list replayed into the real scanner",
   text="TLC explores every text up to the fragment bound, checks that the operational scanner machine refines the declarative maximal-munch tokenisation "
        "(plus partition/line/EOF/keyword invariants) in every state, and emits each text with its expected tokens; the harness replays all of them, "
        "tlc -simulate long texts and all 1.1M single code points into lexer.ScanTokens rebuilt from /repo and compares type, lexeme, literal and line of every token and every diagnostic line. "
        "Exhaustive within the bound, sampled beyond it.",
   note=TB + "Go's unicode tables for the per-code-point sweep; bound: texts of <=3 (quick) / <=4 (thorough) fragments over a 43-character + 20-word alphabet.",
   ref="DESIGN.md 4.1, 6 (C09)"),
}
NOT_YET = "check not built yet in this round (see DESIGN.md 11 for the build order)"
props = [json.loads(l) for l in open(os.path.join(ROOT, "properties.jsonl"))]
checks, na = [], []
for p in props:
    i = p["id"]
    if i in CHECKS:
        c = CHECKS[i]
        checks.append({
            "property_id": i,
            "quick_cmd": "./check %s --tier quick" % i,
            "thorough_cmd": "./check %s --tier thorough" % i,
            "evidence_file": "/verif/evidence/%s.json" % i,
            "replay_cmd_template": "./check %s --replay {path}" % i,
            "engine": "tlc+harness",
            "level_claimed": {"category": "model_checking", "text": c["text"], "design_ref": c["ref"]},
            "level_note": c["note"],
            "technique": c["technique"],
        })
    else:
        na.append({"property_id": i, "reason": NOT_YET})
m = {
 "version": 1,
 "setup_cmd": "./setup.sh",
 "hooks": {
   "guard": "verif",
   "enable": "go build -tags verif (the harness module /verif/harness replaces github.com/ah-naf/borno by /repo)",
   "baseline_off_cmd": "cd /repo && go test -vet=off -count=1 ./...",
   "source_commits": [l.strip() for l in os.popen("git -C /repo log --format=%H --grep='^verif:'").read().split()],
   "add_only": True,
 },
 "engines": [
   {"name": "tlc+harness", "path": "/verif/check", "serves_properties": [c["property_id"] for c in checks],
    "kind_free_text": "TLC 1.8 on the TLA+ modules in /verif/spec (Host primitives overridden by /verif/java), driven by the Go orchestrator /verif/harness, "
                      "which replays TLC-generated behaviours into the code rebuilt from /repo and validates recorded traces against the trace specifications"},
 ],
 "checks": checks,
 "not_applicable": na,
 "notes": "All checks: exit 0 = held (KNOWN-FINDING lines for entries of known_findings.jsonl), exit 1 + VIOLATION lines, exit 2 = infrastructure problem (never a verdict).",
}
json.dump(m, open(os.path.join(ROOT, "MANIFEST.json"), "w"), indent=1, ensure_ascii=False)
print("MANIFEST.json: %d checks, %d not_applicable" % (len(checks), len(na)))
