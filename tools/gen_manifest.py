#!/usr/bin/env python3
"""Regenerates /verif/MANIFEST.json from the table below (one source of truth for the check registry)."""
import json, os
ROOT = os.path.dirname(os.path.dirname(os.path.abspath(__file__)))
TB = ("Trusted base: TLC 1.8, the Host override (JVM double arithmetic, BigDecimal, StrictMath, java.text.Normalizer), "
      "the Go toolchain, the harness's abstraction function and tolerant comparators; ")
SEM = ("TLA+ abstract machine BornoSem (small-step semantics: scopes, closures, heap, signals, absorbing errors) model-checked by TLC on the program family %s "
       "(invariants and action properties in every state); every terminal state is emitted with the program and its prescribed behaviour and replayed into the interpreter rebuilt from /repo")
def sem(fam, text, bound, ref):
    return dict(technique=SEM % fam,
        text="TLC executes every program of the family on the specification, checking the machine's invariants (absorbing errors, scope and heap discipline, local stores, append-only output) "
             "in every state, and emits each terminal state; the harness renders the program with the pinned spellings, runs it in-process with the verif hooks (and through the executable where streams and exit status matter) "
             "and compares stdout, first diagnostic (kind + line), built-in invocations and termination with tolerant comparators. " + text,
        note=TB + "the specification is the documentation-level reading of the language (DESIGN.md 4); bounds: " + bound, ref=ref)
CHECKS = {
 "C09": dict(
   technique="TLA+ spec BornoLex (declarative maximal munch + scanner machine) model-checked by TLC; every bounded text and its expected token list replayed into the real scanner",
   text="TLC explores every text up to the fragment bound, checks that the operational scanner machine refines the declarative maximal-munch tokenisation "
        "(plus partition/line/EOF/keyword invariants) in every state, and emits each text with its expected tokens; the harness replays all of them, "
        "tlc -simulate long texts and all 1.1M single code points into lexer.ScanTokens rebuilt from /repo and compares type, lexeme, literal and line of every token and every diagnostic line. "
        "Exhaustive within the bound, sampled beyond it.",
   note=TB + "Go's unicode tables for the per-code-point sweep; bound: texts of <=3 (quick) / <=4 (thorough) fragments over a 43-character + 20-word alphabet.",
   ref="DESIGN.md 4.1, 6 (C09)"),
 "C02": sem("FamOps", "Exhaustive over the operator x value-pair matrix, seeded random nested expressions beyond it; cells the documentation leaves open are not judged.",
            "17 binary + 3 unary operators x 25 (quick) / 36 (thorough) pool values per side, 600 / 20000 random expressions of depth <= 3", "DESIGN.md 4.3, 6 (C02)"),
 "C03": sem("FamScope", "Exhaustive over all in-domain scope histories of the size bound, seeded random longer ones.",
            "histories of total size 3 (quick) / 4 (thorough) over 2 colliding names, nesting <= 2, plus 3000 / 30000 random histories of 4-7 items, nesting <= 3", "DESIGN.md 4.4, 6 (C03)"),
 "C04": sem("FamCalls", "Exhaustive over return positions, closure-call interleavings and callee/arity cells within the bounds.",
            "return at every nesting of depth <= 2 (quick) / 3 (thorough) of 7 context kinds; closure histories of length <= 4 / 6; recursion depth <= 6", "DESIGN.md 4.4, 6 (C04)"),
 "C05": sem("FamControl", "Exhaustive over control skeletons of the depth bound.", "skeleton depth 2 (quick, 1971 programs) / 3 (thorough)", "DESIGN.md 4.4, 6 (C05)"),
 "C06": sem("FamFaults", "Every fault kind x position cell; replay also through the executable for exit status 70/0 and stream separation.",
            "23 expression faults x 37 positions + 16 statement-level faults, x 1 (quick) / 4 (thorough) line paddings", "DESIGN.md 4.4, 6 (C06)"),
 "C07": sem("FamWild + FamMath + FamOps", "Only the outcome class is judged here: a recovered panic, a worker killed by a fatal error, or a hang is a violation; programs whose output is unspecified are still run.",
            "46 forms x 20 values x 6 partners, cyclic values, deep nesting, 2500 (quick) / 40000 (thorough) seeded random programs; coverage-guided fuzzing is not used (other technique family)", "DESIGN.md 6 (C07)"),
 "C11": sem("FamArrays", "Exhaustive over array-operation histories of the length bound; both variables printed after every step (pure list model).",
            "histories of <= 2 (quick) / 3 (thorough) of 41 operations + one of 29 bad-index operations, 300 / 5000 random histories of 12 / 25 operations", "DESIGN.md 4.4, 6 (C11)"),
 "C12": sem("FamObjects", "Exhaustive over object-operation histories of the length bound; listing order is free but must be stable and keys/values aligned.",
            "histories of <= 2 (quick) / 3 (thorough) of 32 operations + one of 12 misuses, 300 / 5000 random histories", "DESIGN.md 4.4, 6 (C12)"),
 "C14": sem("FamOrder", "Probe-tag sequences fix the evaluation order; every truthiness representative under every consumer.",
            "depth-1 and depth-2 probe forms (491 programs), 24 truthiness representatives x 6 consumers", "DESIGN.md 4.4, 6 (C14)"),
 "C15": sem("FamPrint", "Numbers are checked by relation (denotes exactly the value, shortest digits, integers < 10^6 plain), strings exactly (NFC); also through the executable (real stdout bytes).",
            "60 boundary numbers + 300 (quick) / 20000 (thorough) random doubles, 60 strings over Latin/Bangla/marks/decomposable code points, each in 4-19 print forms", "DESIGN.md 4.3, 6 (C15)"),
 "C16": sem("FamProducers", "All producers of a value must behave as the single specification value does, hence pairwise identically.",
            "87 one-hole contexts x 10 values x 6-10 producers (6237 programs)", "DESIGN.md 6 (C16)"),
 "C17": sem("FamMath", "abs/sqrt/round exactly; sin/cos (4 ulp), tan (8 ulp), pow (64 ulp) relative to fdlibm on the moderate domain, exact where every correct implementation agrees; clock() against the harness clock.",
            "17 built-ins x 0..3 (quick) / 4 (thorough) arguments x 8 kinds; 30 boundary values + 200 / 20000 random doubles per unary function; 17x17 pow grid; 89 min/max lists", "DESIGN.md 4.3, 6 (C17)"),
}
NOT_YET = "check not built yet in this round (see DESIGN.md 11 for the build order)"
props = [json.loads(l) for l in open(os.path.join(ROOT, "properties.jsonl"))]
checks, na = [], []
for p in props:
    i = p["id"]
    if i in CHECKS:
        c = CHECKS[i]
        checks.append({
            "property_id": i,
            "quick_cmd": "./check %s --tier quick" % i,
            "thorough_cmd": "./check %s --tier thorough" % i,
            "evidence_file": "/verif/evidence/%s.json" % i,
            "replay_cmd_template": "./check %s --replay {path}" % i,
            "engine": "tlc+harness",
            "level_claimed": {"category": "model_checking", "text": c["text"], "design_ref": c["ref"]},
            "level_note": c["note"],
            "technique": c["technique"],
        })
    else:
        na.append({"property_id": i, "reason": NOT_YET})
m = {
 "version": 1,
 "setup_cmd": "./setup.sh",
 "hooks": {
   "guard": "verif",
   "enable": "go build -tags verif (the harness module /verif/harness replaces github.com/ah-naf/borno by /repo)",
   "baseline_off_cmd": "cd /repo && go test -vet=off -count=1 ./...",
   "source_commits": [l.strip() for l in os.popen("git -C /repo log --format=%H --grep='^verif:'").read().split()],
   "add_only": True,
 },
 "engines": [
   {"name": "tlc+harness", "path": "/verif/check", "serves_properties": [c["property_id"] for c in checks],
    "kind_free_text": "TLC 1.8 on the TLA+ modules in /verif/spec (Host primitives overridden by /verif/java), driven by the Go orchestrator /verif/harness, "
                      "which replays TLC-generated behaviours into the code rebuilt from /repo and validates recorded traces against the trace specifications"},
 ],
 "checks": checks,
 "not_applicable": na,
 "notes": "All checks: exit 0 = held (KNOWN-FINDING lines for entries of known_findings.jsonl), exit 1 + VIOLATION lines, exit 2 = infrastructure problem (never a verdict).",
}
json.dump(m, open(os.path.join(ROOT, "MANIFEST.json"), "w"), indent=1, ensure_ascii=False)
print("MANIFEST.json: %d checks, %d not_applicable" % (len(checks), len(na)))
