#!/bin/bash
# tools/seed_eval.sh <dir-with-patch.diff-and-demo> <label> <check...>
# Confirms a seeded change on the CURRENT tree: applies, builds, baseline tests unchanged, demonstration fails with it and
# passes without it; then runs the given checks against it.  /repo is restored afterwards.  Prints one summary line.
D=$1; L=$2; shift 2
export GOFLAGS=-mod=mod GOPROXY=off GOSUMDB=off GOTOOLCHAIN=local
[ -z "$(git -C /repo status --porcelain)" ] || { echo "$L: /repo not clean"; exit 3; }
W=/tmp/seed_$$; mkdir -p $W
(cd /verif/harness && go build -o $W/borno_base github.com/ah-naf/borno) || { echo "$L: base build failed"; exit 3; }
git -C /repo apply "$D/patch.diff" 2>/dev/null || git -C /repo apply --3way "$D/patch.diff" 2>/dev/null || { echo "$L: PATCH-DOES-NOT-APPLY"; git -C /repo reset -q --hard; rm -rf $W; exit 4; }
git -C /repo diff HEAD > $W/ported.diff
if ! (cd /verif/harness && go build -o $W/borno_mut github.com/ah-naf/borno) 2>$W/build.log; then echo "$L: MUTANT-DOES-NOT-BUILD"; git -C /repo reset -q --hard; rm -rf $W; exit 4; fi
# baseline tests with the mutant (guard off), ignoring the known flaky / always-failing ones
T=$( (cd /repo && GOFLAGS= go test -count=1 ./... 2>&1) | grep -E "^\s+--- FAIL" | grep -v "Invalid_addition_of_string_and_boolean\|Object_Literal" | wc -l)
demo_ok() { # $1 = binary ; returns 0 if demo passes (property holds)
  if [ -f "$D/demo.sh" ]; then (cd "$D" && bash ./demo.sh "$1" >/dev/null 2>&1); return $?; fi
  return 2
}
demo_ok $W/borno_base; B=$?
demo_ok $W/borno_mut; M=$?
RES=""
for c in "$@"; do
  out=$(/verif/check $c 2>&1)
  if echo "$out" | grep -q "^VIOLATION"; then RES="$RES $c:CAUGHT"; elif echo "$out" | grep -q "INFRA"; then RES="$RES $c:infra"; else RES="$RES $c:missed"; fi
done
git -C /repo reset -q --hard
mkdir -p /verif/.work/seed_out/$L; cp $W/ported.diff /verif/.work/seed_out/$L/patch.diff
echo "$L: extra-test-failures=$T demo(base)=$B demo(mutant)=$M checks:$RES"
rm -rf $W
