#!/bin/bash
# tools/sanity.sh - anti-vacuity controls on the SPECIFICATION: each deliberately broken variant must make TLC report
# the named invariant / property violated; the unbroken configurations must not.  Exit 0 iff all controls behave.
cd "$(dirname "$0")/.."
[ -f build/classes/tlc2/module/Host.class ] || ./setup.sh >/dev/null
fail=0
run() { # module cfg expected-violated-name
  out=$(timeout 900 tools/tlc.sh "$1" "$2" 2>&1)
  if echo "$out" | grep -q "$3 is violated"; then echo "ok   $2: $3 violated as it must be"; else echo "FAIL $2: expected $3 to be violated"; echo "$out" | grep -E "rror|violated" | head -5; fail=1; fi
}
run BornoProc BornoProc_broken.cfg ReplLineIndependence
run FamCalls Sanity_WhileSwallowsReturn.cfg ReturnUnwindsToCall
run FamFaults Sanity_ErrorDoesNotStop.cfg "NoEffectAfterError\|FirstDiagOnly"
run FamArrays Sanity_RemoveShiftsInPlace.cfg NativesArePure
run FamCalls Sanity_ReclaimAlways.cfg "Monotone\|ScopesWellFormed"
exit $fail
