#!/bin/bash
# tools/trymutant.sh <patch.diff> <Cxx> [more checks...] : apply a seeded change to /repo, run the checks, undo it.
P=$1; shift
if [ -n "$(git -C /repo status --porcelain)" ]; then echo "/repo not clean"; exit 3; fi
git -C /repo apply "$P" 2>/dev/null || git -C /repo apply --3way "$P" 2>/dev/null || { echo "patch does not apply"; git -C /repo reset -q --hard; exit 3; }
for c in "$@"; do
  /verif/check $c 2>&1 | grep -E "VIOLATION|KNOWN-FINDING|INFRA|seed=" | cut -c1-${CUT:-200} | head -${MAXL:-8}
done
git -C /repo reset -q --hard && git -C /repo status --short
