#!/bin/bash
# tools/trymutant.sh <patch.diff> <Cxx> [more checks...] : apply a seeded change to /repo, run the checks, undo it.
P=$1; shift
git -C /repo apply "$P" || { echo "patch does not apply"; exit 3; }
for c in "$@"; do
  /verif/check $c 2>&1 | grep -E "VIOLATION|KNOWN-FINDING|INFRA|seed=" | cut -c1-260 | head -${MAXL:-8}
done
git -C /repo checkout -- . && git -C /repo status --short
