#!/bin/bash
# Build the framework from files on disk only (offline): Host override class, harness module files.
set -e
cd "$(dirname "$0")"
JAR=/opt/veriftools/tla/tla2tools.jar
mkdir -p build/classes .work evidence replays
javac -nowarn -d build/classes -cp "$JAR" java/tlc2/module/Host.java
# harness go.sum comes from the repository (x/text); never run go inside /repo
cp /repo/go.sum harness/go.sum 2>/dev/null || true
echo "setup ok"
